module verif

go 1.24.2

require (
	github.com/KevoDB/kevo v0.0.0
	github.com/anishathalye/porcupine v1.3.0
	google.golang.org/grpc v1.72.0
	google.golang.org/protobuf v1.36.6
)

require (
	github.com/cespare/xxhash/v2 v2.3.0 // indirect
	github.com/klauspost/compress v1.18.0 // indirect
	golang.org/x/net v0.38.0 // indirect
	golang.org/x/sys v0.31.0 // indirect
	golang.org/x/text v0.23.0 // indirect
	google.golang.org/genproto/googleapis/rpc v0.0.0-20250218202821-56aae31c358a // indirect
)

replace github.com/KevoDB/kevo => /repo
