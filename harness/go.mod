module verif

go 1.24.2

require (
	github.com/KevoDB/kevo v0.0.0
	github.com/anishathalye/porcupine v1.3.0
	google.golang.org/grpc v1.72.0
	google.golang.org/protobuf v1.36.6
)

require github.com/cespare/xxhash/v2 v2.3.0 // indirect

replace github.com/KevoDB/kevo => /repo
