// kvmon is the single binary behind ./check: orchestrator and worker.
package main

import (
	"fmt"
	"os"
	"strconv"

	"verif/internal/core"
	_ "verif/internal/mon"
)

func main() {
	if len(os.Args) < 2 {
		fmt.Fprintln(os.Stderr, "usage: kvmon run <Cxx> <quick|thorough> [case] | kvmon worker ... | kvmon list")
		os.Exit(2)
	}
	switch os.Args[1] {
	case "worker":
		core.WorkerMain(os.Args[2:])
	case "needs-race":
		m := core.Get(os.Args[2])
		if m != nil && (m.Race || (m.RaceThoroughOnly && len(os.Args) > 3 && os.Args[3] == "thorough")) {
			os.Exit(0)
		}
		os.Exit(1)
	case "list":
		for _, id := range core.IDs() {
			fmt.Println(id)
		}
	case "run":
		if len(os.Args) < 4 {
			fmt.Fprintln(os.Stderr, "usage: kvmon run <Cxx> <quick|thorough> [case]")
			os.Exit(2)
		}
		seed := uint64(1)
		if v := os.Getenv("VERIF_SEED"); v != "" {
			if s, err := strconv.ParseUint(v, 10, 64); err == nil {
				seed = s
			}
		}
		vd := os.Getenv("VERIF_DIR")
		if vd == "" {
			vd = "/verif"
		}
		o := core.Options{Prop: os.Args[2], Tier: os.Args[3], Seed: seed, VerifDir: vd, Only: -1}
		if len(os.Args) > 4 {
			o.Only, _ = strconv.Atoi(os.Args[4])
		}
		os.Exit(core.RunCheck(o))
	default:
		if fn, ok := core.SubCommands[os.Args[1]]; ok {
			fn(os.Args[2:])
			return
		}
		fmt.Fprintln(os.Stderr, "unknown command", os.Args[1])
		os.Exit(2)
	}
}
