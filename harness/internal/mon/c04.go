package mon

import (
	"fmt"
	"sort"
	"strings"
	"sync"
	"sync/atomic"
	"time"

	"github.com/KevoDB/kevo/pkg/verifhook"
	"github.com/anishathalye/porcupine"

	"verif/internal/core"
	"verif/internal/kv"
)

func init() {
	core.Register(&core.Monitor{
		ID:    "C04",
		Level: "exploration",
		Rule: "3-8 client goroutines, each with at most one open transaction, run read-only and read-write transactions over 3-8 keys (gets, full and range scans, puts, deletes, commit or " +
			"rollback at PRNG-chosen moments, client-side pauses between steps; yields at the hook sites after lock acquisition, before the batch is applied and before the lock is released). " +
			"Every written value is unique. Per transaction the monitor records begin-call time, the external read set (first read of each key it did not write itself; scans contribute one read " +
			"per key of the universe), the final write set, the outcome and the finish-return time; reads of own writes and repeated reads are checked inline. The history is checked with " +
			"porcupine against a model whose single operation is a whole transaction (all external reads match the state, then committed writes apply): linearizability of that object with " +
			"call = begin-call and return = finish-return is strict serializability, and one state for all reads of a read-only transaction is the snapshot clause. " +
			"distinct = hash of the begin/finish event order; non-trivial = >= 2 transactions overlapped in time and >= 1 read-write transaction committed inside another's lifetime",
		Assumptions: []string{"no non-transactional writes during a history (excluded by the statement)", "porcupine timeout (30s) => inconclusive"},
		NumCases: func(tier string) int {
			if tier == "thorough" {
				return 6000
			}
			return 400
		},
		Run: runC04,
	})
}

type txRec struct {
	Reads  map[string]string // external reads: key -> value or absent
	Writes map[string]string // final write set: key -> value or absent (delete)
	Commit bool
	RO     bool
	Client int
}

func encState(m map[string]string) string {
	ks := make([]string, 0, len(m))
	for k := range m {
		ks = append(ks, k)
	}
	sort.Strings(ks)
	var b strings.Builder
	for _, k := range ks {
		b.WriteString(k)
		b.WriteByte('=')
		b.WriteString(m[k])
		b.WriteByte(';')
	}
	return b.String()
}

func decState(s string) map[string]string {
	m := map[string]string{}
	for _, p := range strings.Split(s, ";") {
		if k, v, ok := strings.Cut(p, "="); ok {
			m[k] = v
		}
	}
	return m
}

var txModel = porcupine.Model{
	Init: func() interface{} { return "" },
	Step: func(st, in, out interface{}) (bool, interface{}) {
		t := in.(*txRec)
		m := decState(st.(string))
		for k, v := range t.Reads {
			cur, ok := m[k]
			if !ok {
				cur = absent
			}
			if cur != v {
				return false, st
			}
		}
		if !t.Commit || len(t.Writes) == 0 {
			return true, st
		}
		for k, v := range t.Writes {
			if v == absent {
				delete(m, k)
			} else {
				m[k] = v
			}
		}
		return true, encState(m)
	},
	DescribeOperation: func(in, out interface{}) string {
		t := in.(*txRec)
		return fmt.Sprintf("client %d ro=%v commit=%v reads=%v writes=%v", t.Client, t.RO, t.Commit, t.Reads, t.Writes)
	},
}

func runC04(c *core.Ctx, res *core.Result) {
	r := c.Rand
	cfg := kv.Cfg{MemTableSize: []int64{64, 1024, 16384, 1 << 20}[r.Intn(4)], MaxMemTables: r.Range(1, 4), SyncMode: 0, CompactSecs: 3600}
	eng, err := kv.Open(c.Dir+"/db", cfg)
	if err != nil {
		res.Violate("open_error", err.Error(), nil)
		return
	}
	defer eng.Close()
	nk := r.Range(3, 8)
	keys := make([]string, nk)
	for i := range keys {
		keys[i] = fmt.Sprintf("s%02d", i)
	}
	ypm := []int64{0, 100, 500, 950}[r.Intn(4)]
	verifhook.SetYield(r.U64(), ypm)
	defer verifhook.SetYield(0, 0)
	nclients := r.Range(3, 8)
	perClient := r.Range(4, 10)
	base := time.Now()
	now := func() int64 { return int64(time.Since(base)) }
	var mu sync.Mutex
	var ops []porcupine.Operation
	inline := ""
	fail := func(s string) {
		mu.Lock()
		if inline == "" {
			inline = s
		}
		mu.Unlock()
	}
	var busy atomic.Int64
	var wg sync.WaitGroup
	for cl := 0; cl < nclients; cl++ {
		wg.Add(1)
		rr := r.Derive(uint64(500 + cl))
		go func(cl int) {
			defer wg.Done()
			for t := 0; t < perClient; t++ {
				ro := rr.Chance(40)
				rec := &txRec{Reads: map[string]string{}, Writes: map[string]string{}, RO: ro, Client: cl}
				t0 := now()
				tx, err := eng.BeginTransaction(ro)
				if err != nil {
					fail("BeginTransaction: " + err.Error())
					return
				}
				observe := func(k, v string) {
					if w, mine := rec.Writes[k]; mine {
						if w != v {
							fail(fmt.Sprintf("client %d: transaction does not see its own write: key %s reads %q, own last write %q", cl, k, shorten(v), shorten(w)))
						}
						return
					}
					if prev, seen := rec.Reads[k]; seen {
						if prev != v {
							fail(fmt.Sprintf("client %d (read-only=%v): key %s read %q and later %q inside one transaction", cl, ro, k, shorten(prev), shorten(v)))
						}
						return
					}
					rec.Reads[k] = v
				}
				steps := rr.Range(1, 6)
				for s := 0; s < steps; s++ {
					k := keys[rr.Intn(nk)]
					switch rr.Pick(35, 12, 30, 12) {
					case 0: // get
						v, err := tx.Get([]byte(k))
						if err == nil {
							observe(k, string(v))
						} else if kv.IsNotFound(err) {
							observe(k, absent)
						}
					case 1: // scan (full or range)
						var a, b []byte
						it := tx.NewIterator()
						if rr.Bool() {
							a, b = []byte(keys[rr.Intn(nk)]), []byte(keys[rr.Intn(nk)])
							it = tx.NewRangeIterator(a, b)
						}
						seen := map[string]string{}
						for it.SeekToFirst(); it.Valid(); it.Next() {
							if it.IsTombstone() {
								continue
							}
							seen[string(it.Key())] = string(it.Value())
						}
						for _, kk := range keys {
							if a != nil && (kk < string(a) || kk >= string(b)) {
								continue
							}
							if v, ok := seen[kk]; ok {
								observe(kk, v)
							} else {
								observe(kk, absent)
							}
						}
					case 2: // put
						if ro {
							continue
						}
						v := fmt.Sprintf("v%d.%d.%d.%d", c.Idx, cl, t, s)
						vb := []byte(v)
						if rr.Chance(6) {
							v, vb = "", nil // an empty value (nil is what a remote client's empty value arrives as)
						}
						if err := tx.Put([]byte(k), vb); err != nil {
							fail("tx.Put: " + err.Error())
						}
						rec.Writes[k] = v
					case 3: // delete
						if ro {
							continue
						}
						if err := tx.Delete([]byte(k)); err != nil {
							fail("tx.Delete: " + err.Error())
						}
						rec.Writes[k] = absent
					}
					if rr.Chance(25) {
						time.Sleep(time.Duration(rr.Range(1, 400)) * time.Microsecond)
					}
				}
				if rr.Chance(80) {
					rec.Commit = true
					if err := tx.Commit(); err != nil {
						if kv.IsEngineBusy(err) {
							busy.Add(1) // an aborted transaction: it must have had no effect
						} else {
							fail("Commit: " + err.Error())
						}
						rec.Commit = false
					}
				} else {
					tx.Rollback()
				}
				t1 := now()
				mu.Lock()
				ops = append(ops, porcupine.Operation{ClientId: cl, Input: rec, Call: t0, Output: 0, Return: t1})
				mu.Unlock()
				if rr.Chance(30) {
					time.Sleep(time.Duration(rr.Range(1, 200)) * time.Microsecond)
				}
			}
		}(cl)
	}
	wg.Wait()
	res.Count("commits_refused_by_engine", busy.Load())
	verifhook.SetYield(0, 0)
	feat := map[string]string{"clients": fmt.Sprint(nclients)}
	if inline != "" {
		res.Violate("transaction_isolation", fmt.Sprintf("%s\nconfig %s, %d clients, %d keys, yield %d/1000", inline, cfg, nclients, nk, ypm), feat)
		return
	}
	// overlap statistics
	sort.Slice(ops, func(i, j int) bool { return ops[i].Call < ops[j].Call })
	overl, inside := 0, 0
	var maxRet int64 = -1
	for i, o := range ops {
		if o.Call < maxRet {
			overl++
		}
		if o.Return > maxRet {
			maxRet = o.Return
		}
		t := o.Input.(*txRec)
		if t.Commit && len(t.Writes) > 0 {
			for j, p := range ops {
				if j != i && p.Call < o.Call && p.Return > o.Return {
					inside++
					break
				}
			}
		}
	}
	res.Count("transactions", int64(len(ops)))
	res.Count("overlapping_transactions", int64(overl))
	res.Count("commits_inside_another_lifetime", int64(inside))
	result, _ := porcupine.CheckOperationsVerbose(txModel, ops, 30*time.Second)
	switch result {
	case porcupine.Illegal:
		var b strings.Builder
		for _, o := range ops {
			fmt.Fprintf(&b, "  [%9d,%9d] %s\n", o.Call, o.Return, txModel.DescribeOperation(o.Input, nil))
		}
		res.Violate("not_serializable", fmt.Sprintf("no serial order of the %d transactions is consistent with real time and with what they read\nconfig %s, %d clients, %d keys, yield %d/1000\n%s", len(ops), cfg, nclients, nk, ypm, b.String()), feat)
	case porcupine.Unknown:
		res.Inconclusive = "porcupine timeout"
	}
	var sb strings.Builder
	type ev struct {
		t int64
		s string
	}
	var evs []ev
	for _, o := range ops {
		evs = append(evs, ev{o.Call, fmt.Sprintf("b%d", o.ClientId)}, ev{o.Return, fmt.Sprintf("f%d", o.ClientId)})
	}
	sort.Slice(evs, func(i, j int) bool { return evs[i].t < evs[j].t })
	for _, e := range evs {
		sb.WriteString(e.s)
	}
	res.Sig = core.Sig(sb.String())
	res.Nontrivial = overl > 0 && inside > 0
	if c.Idx < 2 {
		var s []string
		for i, o := range ops {
			if i >= 8 {
				break
			}
			s = append(s, fmt.Sprintf("[%d,%d] %s", o.Call, o.Return, txModel.DescribeOperation(o.Input, nil)))
		}
		res.Sample = map[string]interface{}{"case": c.Idx, "config": cfg, "clients": nclients, "keys": nk, "transactions": len(ops), "overlapping": overl, "yield_permille": ypm, "history_head": s}
	}
}
