package mon

import (
	"bytes"
	"fmt"
	"net"
	"reflect"
	"sort"
	"strings"
	"sync"
	"sync/atomic"
	"time"

	"github.com/KevoDB/kevo/pkg/common/iterator"
	"github.com/KevoDB/kevo/pkg/engine"
	"github.com/KevoDB/kevo/pkg/engine/interfaces"
	"github.com/KevoDB/kevo/pkg/replication"
	"github.com/KevoDB/kevo/pkg/transaction"
	"github.com/KevoDB/kevo/pkg/wal"
	pb "github.com/KevoDB/kevo/proto/kevo"

	"verif/internal/core"
	"verif/internal/kv"
)

func init() {
	core.Register(&core.Monitor{
		ID:    "C16",
		Level: "exploration",
		Rule: "a real replication.Manager in replica mode (started against a real primary manager on loopback) makes the engine read-only the way the server does. (1) The mutating surface " +
			"is enumerated by reflection from *EngineFacade, interfaces.Transaction and the generated KevoService client; every entry point is called with synthesised arguments - unknown methods " +
			"too - between two snapshots (full scan + log entry count): the call must fail with a read-only error or be a non-mutator, and the snapshot must be unchanged; the *Internal bypass " +
			"methods are the documented applier path and must work. (2) An applier goroutine applies a generated entry stream (puts, deletes and, at low weight, merge entries) through the real " +
			"EngineApplier while 2-6 client goroutines hammer the embedded and remote mutators and a sampler reads IsReadOnly/node info: every applied entry must be visible, no client write " +
			"ever, every client mutation refused, the read-only flag never observed off. (3) GetNodeInfo of standalone, primary and replica managers is compared with their configuration. " +
			"Node information is compared again after Manager.Stop with the still-refused writes; the Compact RPC is also called with force=true. distinct = hash(seed parameters, stream); non-trivial = >= 1 refused mutation of every enumerated entry point and >= 1 entry applied while clients were writing",
		Assumptions: []string{"flush and compaction requests are maintenance, not client mutations: they are required only to leave the data unchanged"},
		NumCases: func(tier string) int {
			if tier == "thorough" {
				return 400
			}
			return 40
		},
		Run:         runC16,
		CaseTimeout: 4 * time.Minute,
		HangClass:   "hang",
		Workers:     8,
	})
}

func freePort() string {
	l, err := net.Listen("tcp", "127.0.0.1:0")
	if err != nil {
		return "127.0.0.1:0"
	}
	a := l.Addr().String()
	l.Close()
	return a
}

func isReadOnlyErr(err error) bool {
	if err == nil {
		return false
	}
	s := err.Error()
	return strings.Contains(s, "read-only") || strings.Contains(s, "read only")
}

type dbSnap struct {
	rows    string
	logEnts int
}

func snapshotDB(eng *engine.EngineFacade, walDir string) dbSnap {
	var b strings.Builder
	if it, err := eng.GetIterator(); err == nil {
		for it.SeekToFirst(); it.Valid(); it.Next() {
			fmt.Fprintf(&b, "%q=%q/%v;", it.Key(), it.Value(), it.IsTombstone())
		}
	}
	// anything appended to the log moves its next sequence number (buffered or not)
	n := 0
	if w := eng.GetWAL(); w != nil {
		n = int(w.GetNextSequence())
	}
	return dbSnap{b.String(), n}
}

func runC16(c *core.Ctx, res *core.Result) {
	r := c.Rand
	cfg := kv.Cfg{MemTableSize: []int64{300, 4096, 1 << 20}[r.Intn(3)], MaxMemTables: r.Range(1, 4), SyncMode: 0, CompactSecs: 3600}
	// primary
	peng, err := kv.Open(c.Dir+"/primary", cfg)
	if err != nil {
		res.Violate("open_error", err.Error(), nil)
		return
	}
	defer peng.Close()
	paddr := freePort()
	pm, err := replication.NewManager(peng, &replication.ManagerConfig{Enabled: true, Mode: replication.ReplicationModePrimary, ListenAddr: paddr, PrimaryConfig: replication.DefaultPrimaryConfig(), ForceReadOnly: true})
	if err != nil || pm.Start() != nil {
		res.Inconclusive = fmt.Sprintf("cannot start primary manager: %v", err)
		return
	}
	defer pm.Stop()
	// replica
	reng, err := kv.Open(c.Dir+"/replica", cfg)
	if err != nil {
		res.Violate("open_error", err.Error(), nil)
		return
	}
	defer reng.Close()
	raddr := freePort()
	rm, err := replication.NewManager(reng, &replication.ManagerConfig{Enabled: true, Mode: replication.ReplicationModeReplica, PrimaryAddr: paddr, ListenAddr: raddr, ReplicaConfig: replication.DefaultReplicaConfig(), ForceReadOnly: true})
	if err != nil {
		res.Inconclusive = "cannot create replica manager: " + err.Error()
		return
	}
	if err := rm.Start(); err != nil {
		res.Inconclusive = "cannot start replica manager: " + err.Error()
		return
	}
	defer rm.Stop()
	feat := map[string]string{}
	if !reng.IsReadOnly() {
		res.Violate("replica_not_read_only", "after the replica manager started the engine does not report read-only", feat)
		return
	}
	// seed data through the applier path
	applier := replication.NewEngineApplier(reng)
	model := kv.NewModel()
	seq := uint64(0)
	apply := func(typ uint8, k, v []byte) error {
		seq++
		err := applier.Apply(&wal.Entry{SequenceNumber: seq, Type: typ, Key: k, Value: v})
		for try := 0; try < 20 && kv.IsEngineBusy(err); try++ {
			// the engine gave the write up because its log was in rotation (storage.RetryOnWALRotating): a replica
			// gets the same error and applies the entry again after the retransmission - so does the monitor
			res.Count("applier_retries_engine_busy", 1)
			time.Sleep(20 * time.Millisecond)
			err = applier.Apply(&wal.Entry{SequenceNumber: seq, Type: typ, Key: k, Value: v})
		}
		if err == nil {
			if typ == wal.OpTypeDelete {
				model.Del(k)
			} else {
				model.Put(k, v)
			}
		}
		return err
	}
	for i := 0; i < 8; i++ {
		if err := apply(wal.OpTypePut, []byte(fmt.Sprintf("rep%02d", i)), []byte(fmt.Sprintf("seed%d", i))); err != nil {
			res.Violate("applier_refused", "the replication applier could not apply a put on the read-only replica: "+err.Error(), feat)
			return
		}
	}
	walDir := c.Dir + "/replica/wal"
	env, err := startSvc(reng, transaction.NewRegistry(), rm)
	if err != nil {
		res.Inconclusive = err.Error()
		return
	}
	defer env.Stop()

	// ---- (1) enumerated surface
	ckey := func() []byte { return []byte(fmt.Sprintf("client-%d", r.Intn(5))) }
	et := reflect.TypeOf(reng)
	txType := reflect.TypeOf((*interfaces.Transaction)(nil)).Elem()
	itType := reflect.TypeOf((*iterator.Iterator)(nil)).Elem()
	refused := map[string]bool{}
	checkUnchanged := func(name string, before dbSnap) bool {
		after := snapshotDB(reng, walDir)
		if after != before {
			res.Violate("replica_data_changed_by_client", fmt.Sprintf("calling %s on the replica changed its data or its log (next log sequence %d -> %d)", name, before.logEnts, after.logEnts), map[string]string{"entry_point": name})
			return false
		}
		return true
	}
	for i := 0; i < et.NumMethod() && len(res.Violations) == 0; i++ {
		m := et.Method(i)
		if m.Name == "Close" || m.Name == "SetReadOnly" {
			continue
		}
		internal := strings.HasSuffix(m.Name, "Internal")
		before := snapshotDB(reng, walDir)
		args := []reflect.Value{reflect.ValueOf(reng)}
		for a := 1; a < m.Type.NumIn(); a++ {
			t := m.Type.In(a)
			switch {
			case t == reflect.TypeOf([]byte(nil)):
				if internal {
					args = append(args, reflect.ValueOf([]byte(fmt.Sprintf("rep%02d", 20+i))))
				} else {
					args = append(args, reflect.ValueOf(ckey()))
				}
			case t.Kind() == reflect.Bool:
				args = append(args, reflect.ValueOf(false)) // e.g. BeginTransaction(readOnly=false)
			case t == reflect.TypeOf([]*wal.Entry(nil)):
				k := ckey()
				if internal {
					k = []byte(fmt.Sprintf("rep%02d", 20+i))
				}
				args = append(args, reflect.ValueOf([]*wal.Entry{{Type: wal.OpTypePut, Key: k, Value: []byte("cv")}}))
			default:
				args = append(args, reflect.Zero(t))
			}
		}
		outs := m.Func.Call(args)
		res.Count("entry_points_called", 1)
		var callErr error
		for _, o := range outs {
			if o.IsValid() && o.Type().Implements(reflect.TypeOf((*error)(nil)).Elem()) && !o.IsNil() {
				callErr = o.Interface().(error)
			}
		}
		if internal {
			// the documented applier path must work, and is mirrored in the model
			if kv.IsEngineBusy(callErr) {
				res.Count("applier_retries_engine_busy", 1)
				continue // the engine's own give-up (log in rotation); nothing was written, nothing to mirror
			}
			if callErr != nil {
				res.Violate("applier_refused", fmt.Sprintf("%s failed on the read-only replica: %v", m.Name, callErr), feat)
				break
			}
			k := []byte(fmt.Sprintf("rep%02d", 20+i))
			switch {
			case strings.HasPrefix(m.Name, "Put"), strings.HasPrefix(m.Name, "ApplyBatch"):
				model.Put(k, []byte("cv"))
				if strings.HasPrefix(m.Name, "Put") {
					model.Put(k, args[2].Bytes())
				}
			case strings.HasPrefix(m.Name, "Delete"):
				model.Del(k)
			}
			continue
		}
		for _, o := range outs {
			if !o.IsValid() || (o.Kind() == reflect.Interface && o.IsNil()) || (o.Kind() == reflect.Ptr && o.IsNil()) {
				continue
			}
			if o.Type().Implements(txType) {
				tx := o.Interface().(interfaces.Transaction)
				// every mutating method of the transaction interface
				e1 := tx.Put(ckey(), []byte("cv"))
				e2 := tx.Delete([]byte("rep00"))
				e3 := tx.Commit()
				if e1 == nil || e2 == nil {
					res.Violate("replica_accepted_client_write", fmt.Sprintf("a transaction obtained from %s(false) on a replica accepted Put (err %v) / Delete (err %v); commit err %v", m.Name, e1, e2, e3), map[string]string{"entry_point": m.Name + ".tx"})
				} else {
					refused[m.Name+".tx.Put"] = true
					refused[m.Name+".tx.Delete"] = true
					res.Count("refused_mutations", 2)
				}
				tx.Rollback()
			} else if o.Type().Implements(itType) {
				drainIt(o.Interface().(iterator.Iterator), 100)
			}
		}
		mutator := m.Name == "Put" || m.Name == "Delete" || m.Name == "ApplyBatch"
		if mutator {
			if !isReadOnlyErr(callErr) {
				res.Violate("replica_accepted_client_write", fmt.Sprintf("%s on a replica returned %v instead of a read-only error", m.Name, callErr), map[string]string{"entry_point": m.Name})
				break
			}
			refused[m.Name] = true
			res.Count("refused_mutations", 1)
		}
		if !checkUnchanged(m.Name, before) {
			break
		}
	}
	// remote surface: every method of the generated client
	if len(res.Violations) == 0 {
		ctx, cancel := ctxT(60 * time.Second)
		cl := env.Client
		type call struct {
			name string
			fn   func() error
			mut  bool
		}
		var txid string
		calls := []call{
			{"rpc.Put", func() error { _, e := cl.Put(ctx, &pb.PutRequest{Key: ckey(), Value: []byte("cv")}); return e }, true},
			{"rpc.Delete", func() error { _, e := cl.Delete(ctx, &pb.DeleteRequest{Key: []byte("rep00")}); return e }, true},
			{"rpc.BatchWrite", func() error {
				_, e := cl.BatchWrite(ctx, &pb.BatchWriteRequest{Operations: []*pb.Operation{{Type: pb.Operation_PUT, Key: ckey(), Value: []byte("cv")}, {Type: pb.Operation_DELETE, Key: []byte("rep01")}}})
				return e
			}, true},
			{"rpc.BeginTransaction", func() error {
				resp, e := cl.BeginTransaction(ctx, &pb.BeginTransactionRequest{ReadOnly: false})
				if e == nil {
					txid = resp.TransactionId
				}
				return nil
			}, false},
			{"rpc.TxPut", func() error {
				if txid == "" {
					return fmt.Errorf("read-only: no transaction handed out")
				}
				_, e := cl.TxPut(ctx, &pb.TxPutRequest{TransactionId: txid, Key: ckey(), Value: []byte("cv")})
				return e
			}, true},
			{"rpc.TxDelete", func() error {
				if txid == "" {
					return fmt.Errorf("read-only: no transaction handed out")
				}
				_, e := cl.TxDelete(ctx, &pb.TxDeleteRequest{TransactionId: txid, Key: []byte("rep02")})
				return e
			}, true},
			{"rpc.CommitTransaction", func() error {
				if txid != "" {
					cl.CommitTransaction(ctx, &pb.CommitTransactionRequest{TransactionId: txid})
				}
				return nil
			}, false},
			{"rpc.Get", func() error { _, e := cl.Get(ctx, &pb.GetRequest{Key: []byte("rep00")}); return e }, false},
			{"rpc.Scan", func() error {
				st, e := cl.Scan(ctx, &pb.ScanRequest{})
				if e == nil {
					_, e = recvScan(st)
				}
				return e
			}, false},
			{"rpc.GetStats", func() error { _, e := cl.GetStats(ctx, &pb.GetStatsRequest{}); return e }, false},
			{"rpc.Compact", func() error { cl.Compact(ctx, &pb.CompactRequest{}); return nil }, false},
			{"rpc.Compact(force)", func() error { cl.Compact(ctx, &pb.CompactRequest{Force: true}); return nil }, false},
		}
		// make sure the list covers the generated client (new RPCs must be added here deliberately)
		known := map[string]bool{"RollbackTransaction": true, "TxGet": true, "TxScan": true, "GetNodeInfo": true}
		for _, cc := range calls {
			known[strings.TrimPrefix(cc.name, "rpc.")] = true
		}
		ct := reflect.TypeOf((*pb.KevoServiceClient)(nil)).Elem()
		for i := 0; i < ct.NumMethod(); i++ {
			if !known[ct.Method(i).Name] {
				res.Violate("unlisted_service_method", "the service offers "+ct.Method(i).Name+" which the monitor does not know: it cannot be classified as mutating or not", feat)
			}
		}
		for _, cc := range calls {
			if len(res.Violations) > 0 {
				break
			}
			before := snapshotDB(reng, walDir)
			err := cc.fn()
			res.Count("entry_points_called", 1)
			if cc.mut {
				if err == nil {
					res.Violate("replica_accepted_client_write", cc.name+" on a replica succeeded", map[string]string{"entry_point": cc.name})
					break
				}
				refused[cc.name] = true
				res.Count("refused_mutations", 1)
			} else if err != nil && (cc.name == "rpc.Get" || cc.name == "rpc.Scan") {
				res.Violate("replica_refused_read", cc.name+" on a replica failed: "+err.Error(), feat)
				break
			}
			checkUnchanged(cc.name, before)
		}
		cancel()
	}
	if len(res.Violations) > 0 {
		return
	}

	// ---- (2) applier vs clients
	var stop atomic.Bool
	var accepted atomic.Int64
	var flagOff atomic.Int64
	var acceptedWhat sync.Map
	var wg sync.WaitGroup
	nclients := r.Range(2, 6)
	for g := 0; g < nclients; g++ {
		wg.Add(1)
		rr := r.Derive(uint64(g + 1))
		go func(g int) {
			defer wg.Done()
			ctx, cancel := ctxT(120 * time.Second)
			defer cancel()
			for !stop.Load() {
				k := []byte(fmt.Sprintf("client-%d-%d", g, rr.Intn(4)))
				var err error
				name := ""
				switch rr.Intn(7) {
				case 0:
					name, err = "Put", reng.Put(k, []byte("cv"))
				case 1:
					name, err = "Delete", reng.Delete([]byte(fmt.Sprintf("rep%02d", rr.Intn(8))))
				case 2:
					name, err = "ApplyBatch", reng.ApplyBatch([]*wal.Entry{{Type: wal.OpTypePut, Key: k, Value: []byte("cv")}})
				case 3:
					name = "BeginTransaction+Put+Commit"
					tx, e := reng.BeginTransaction(false)
					if e != nil {
						err = e
						break
					}
					err = tx.Put(k, []byte("cv"))
					if err == nil {
						err = tx.Commit()
					} else {
						tx.Rollback()
					}
				case 4:
					name = "rpc.Put"
					_, err = env.Client.Put(ctx, &pb.PutRequest{Key: k, Value: []byte("cv")})
				case 5:
					name = "rpc.BatchWrite"
					_, err = env.Client.BatchWrite(ctx, &pb.BatchWriteRequest{Operations: []*pb.Operation{{Type: pb.Operation_PUT, Key: k, Value: []byte("cv")}}})
				case 6:
					// reads keep working
					if _, gerr := reng.Get([]byte("rep00")); gerr != nil && !kv.IsNotFound(gerr) {
						acceptedWhat.Store("read failed: "+gerr.Error(), true)
					}
					continue
				}
				if err == nil {
					accepted.Add(1)
					acceptedWhat.Store(name, true)
				}
			}
		}(g)
	}
	var appliedNow atomic.Int64
	var blockedMsg atomic.Value
	wg.Add(1)
	go func() { // a client that keeps a (refused, i.e. read-only) transaction open: replicated entries must keep being applied
		defer wg.Done()
		for !stop.Load() {
			tx, err := reng.BeginTransaction(false)
			if err != nil {
				continue
			}
			tx.Get([]byte("rep00"))
			c0 := appliedNow.Load()
			t0 := time.Now()
			for appliedNow.Load() < c0+5 && !stop.Load() {
				if time.Since(t0) > 5*time.Second {
					blockedMsg.CompareAndSwap(nil, fmt.Sprintf("while a client transaction was open on the replica no replicated entry was applied for 5s (%d applied before)", c0))
					break
				}
				time.Sleep(time.Millisecond)
			}
			tx.Rollback()
			if blockedMsg.Load() != nil {
				return
			}
		}
	}()
	wg.Add(1)
	go func() { // sampler
		defer wg.Done()
		for !stop.Load() {
			if !reng.IsReadOnly() {
				flagOff.Add(1)
			}
			if _, _, _, _, ro := rm.GetNodeInfo(); !ro {
				flagOff.Add(1)
			}
			time.Sleep(20 * time.Microsecond)
		}
	}()
	nstream := r.Range(150, 600)
	mergeW := []int{0, 2, 8}[r.Intn(3)]
	applied := 0
	for i := 0; i < nstream; i++ {
		k := []byte(fmt.Sprintf("rep%02d", r.Intn(12)))
		var err error
		switch r.Pick(60, 25, mergeW) {
		case 0:
			err = apply(wal.OpTypePut, k, []byte(fmt.Sprintf("s%d.%d", c.Idx, i)))
		case 1:
			err = apply(wal.OpTypeDelete, k, nil)
		case 2:
			err = apply(wal.OpTypeMerge, k, []byte(fmt.Sprintf("m%d.%d", c.Idx, i)))
		}
		if err != nil {
			stop.Store(true)
			wg.Wait()
			res.Violate("applier_refused", fmt.Sprintf("the replication applier failed on entry %d while clients were active: %v", i, err), feat)
			return
		}
		applied++
		appliedNow.Store(int64(applied))
		if blockedMsg.Load() != nil {
			break
		}
	}
	stop.Store(true)
	wg.Wait()
	if m := blockedMsg.Load(); m != nil {
		res.Violate("replicated_apply_blocked_by_client", m.(string), feat)
		return
	}
	res.Count("entries_applied_under_client_load", int64(applied))
	if accepted.Load() > 0 {
		var names []string
		acceptedWhat.Range(func(k, v interface{}) bool { names = append(names, k.(string)); return true })
		sort.Strings(names)
		res.Violate("replica_accepted_client_write", fmt.Sprintf("%d client mutations were accepted by the replica while replicated entries were being applied (merge weight %d): %v", accepted.Load(), mergeW, names), map[string]string{"entry_point": "concurrent", "merge_entries": fmt.Sprint(mergeW > 0)})
		return
	}
	if flagOff.Load() > 0 {
		res.Violate("read_only_flag_flipped", fmt.Sprintf("IsReadOnly / node info reported read_only=false %d times on a replica while replicated entries were being applied (merge weight %d)", flagOff.Load(), mergeW), map[string]string{"merge_entries": fmt.Sprint(mergeW > 0)})
		return
	}
	// all applier entries visible, no client write
	it, _ := reng.GetIterator()
	it.SeekToFirst()
	got := kv.Drain(it, 1<<20)
	if msg := kv.CheckScan(got, model, nil, nil, nil); msg != "" {
		res.Violate("replica_state_mismatch", "after applying the stream under client load: "+msg, feat)
		return
	}
	// ---- (3) node info
	type ni struct {
		role, primary string
		ro            bool
	}
	get := func(m *replication.Manager) ni {
		role, pa, _, _, ro := m.GetNodeInfo()
		return ni{role, pa, ro}
	}
	if g := get(rm); g.role != "replica" || g.primary != paddr || !g.ro {
		res.Violate("node_info_mismatch", fmt.Sprintf("replica reports role=%s primary=%s read_only=%v, configured replica of %s", g.role, g.primary, g.ro, paddr), feat)
	}
	if g := get(pm); g.role != "primary" || g.ro {
		res.Violate("node_info_mismatch", fmt.Sprintf("primary reports role=%s read_only=%v", g.role, g.ro), feat)
	}
	ctx, cancel := ctxT(10 * time.Second)
	if resp, err := env.Client.GetNodeInfo(ctx, &pb.GetNodeInfoRequest{}); err != nil || resp.NodeRole != pb.GetNodeInfoResponse_REPLICA || !resp.ReadOnly || resp.PrimaryAddress != paddr {
		res.Violate("node_info_mismatch", fmt.Sprintf("the replica's GetNodeInfo RPC returned %v (err %v)", resp, err), feat)
	}
	cancel()
	sm, _ := replication.NewManager(peng, &replication.ManagerConfig{Enabled: false, Mode: replication.ReplicationModeStandalone})
	if g := get(sm); g.role != "standalone" || g.ro || g.primary != "" {
		res.Violate("node_info_mismatch", fmt.Sprintf("standalone manager reports role=%s primary=%q read_only=%v", g.role, g.primary, g.ro), feat)
	}
	// stopping the replication manager (what a server shutdown does first) must not make the node writable
	rm.Stop()
	if err := reng.Put([]byte("client-after-stop"), []byte("cv")); err == nil {
		res.Violate("replica_accepted_client_write", "after the replica's replication manager was stopped (server shutting down) an embedded Put was accepted", map[string]string{"entry_point": "Put after Manager.Stop"})
		return
	}
	{
		ctx, cancel := ctxT(10 * time.Second)
		_, perr := env.Client.Put(ctx, &pb.PutRequest{Key: []byte("client-after-stop"), Value: []byte("cv")})
		cancel()
		if perr == nil {
			res.Violate("replica_accepted_client_write", "after the replica's replication manager was stopped (server shutting down) a remote Put was accepted", map[string]string{"entry_point": "rpc.Put after Manager.Stop"})
			return
		}
	}
	if !reng.IsReadOnly() {
		res.Violate("read_only_flag_flipped", "stopping the replication manager switched the replica's read-only flag off", feat)
		return
	}
	// ... and the node information must stay truthful: the node still refuses every client write
	if g := get(rm); !g.ro || g.role != "replica" || g.primary != paddr {
		res.Violate("node_info_mismatch", fmt.Sprintf("after the replica's replication manager was stopped the node still refuses client writes with a read-only error, but reports role=%s primary=%q read_only=%v", g.role, g.primary, g.ro), map[string]string{"phase": "after Manager.Stop"})
		return
	}
	{
		ctx, cancel := ctxT(10 * time.Second)
		resp, err := env.Client.GetNodeInfo(ctx, &pb.GetNodeInfoRequest{})
		cancel()
		if err != nil || !resp.ReadOnly || resp.NodeRole != pb.GetNodeInfoResponse_REPLICA {
			res.Violate("node_info_mismatch", fmt.Sprintf("after the replica's replication manager was stopped the GetNodeInfo RPC returned %v (err %v) while client writes are still refused as read-only", resp, err), map[string]string{"phase": "after Manager.Stop"})
			return
		}
	}
	res.Count("node_info_checks_after_stop", 1)
	var names []string
	for n := range refused {
		names = append(names, n)
		res.AddSet("refused_entry_points", n)
	}
	sort.Strings(names)
	res.Sig = core.Sig(cfg.String(), nclients, nstream, mergeW)
	res.Nontrivial = len(refused) >= 8 && applied > 0
	if c.Idx < 2 {
		res.Sample = map[string]interface{}{"case": c.Idx, "config": cfg, "refused_entry_points": names, "clients": nclients, "stream_entries": nstream, "merge_weight": mergeW}
	}
	_ = bytes.Equal
}
