package mon

import (
	"bytes"
	"fmt"
	"os"
	"path/filepath"
	"sort"
	"strings"
	"sync"
	"sync/atomic"
	"time"

	"github.com/KevoDB/kevo/pkg/engine"
	"github.com/KevoDB/kevo/pkg/verifhook"
	"github.com/KevoDB/kevo/pkg/wal"
	"github.com/anishathalye/porcupine"

	"verif/internal/core"
	"verif/internal/kv"
)

func init() {
	core.Register(&core.Monitor{
		ID:    "C06",
		Level: "exploration",
		Rule: "4-12 client goroutines issue put/delete/get on 2-6 keys with unique values against an engine whose memtable size (1 byte .. 4KB) makes switch/flush/log rotation happen every few " +
			"writes, background compaction every second, one extra goroutine calling FlushImMemTables/TriggerCompaction; PRNG yields/sleeps at the hook sites between log append, memtable insert, " +
			"memtable switch, rotation and flush publication. Every call is recorded at the client boundary (call/return from one monotonic clock) and the history is checked with porcupine, " +
			"partitioned by key, against a register model with an 'absent' state; a write that returned an error is a no-op in the model (so a later read of its unique value makes the history " +
			"illegal); a final read of every key pins 'exactly once'. Many short histories. Every 9th case is an I/O-fault run instead ('a write that reports an error took no effect'): a child " +
			"process runs a sequential put/delete/batch/transaction program with synchronous logging while strace -e inject fails chosen fsync(2)/write(2) calls on the database files with EIO/ENOSPC; it journals " +
			"which units were acknowledged and which returned an error and dumps a full scan before closing; the scan before close and the scan after a reopen must equal the model of the acknowledged units only.  Every 45th case is the staged rotation race (background flush parked behind its table snapshot, writer parked inside WAL.Append between record write and sync, flush released, writer released, rotation held back): a write that then reports an error must not show up, neither at once nor after a restart. distinct = hash of the per-key call/return event order; non-trivial = >= 1 pair of overlapping operations " +
			"on one key and >= 1 rotation inside the history",
		Assumptions: []string{"Close concurrent with other calls is out of scope", "porcupine timeout (20s per history) => inconclusive"},
		NumCases: func(tier string) int {
			if tier == "thorough" {
				return 5000
			}
			return 360
		},
		Run: runC06,
	})
}

type linIn struct {
	Op  byte // 'p' put, 'd' delete, 'g' get
	Key string
	Val string
}
type linOut struct {
	Val   string
	Found bool
	Err   string
}

const absent = "\x00<absent>"

var regModel = porcupine.Model{
	Partition: func(h []porcupine.Operation) [][]porcupine.Operation {
		m := map[string][]porcupine.Operation{}
		var ks []string
		for _, o := range h {
			k := o.Input.(linIn).Key
			if _, ok := m[k]; !ok {
				ks = append(ks, k)
			}
			m[k] = append(m[k], o)
		}
		sort.Strings(ks)
		var out [][]porcupine.Operation
		for _, k := range ks {
			out = append(out, m[k])
		}
		return out
	},
	Init: func() interface{} { return absent },
	Step: func(st, in, out interface{}) (bool, interface{}) {
		i, o := in.(linIn), out.(linOut)
		switch i.Op {
		case 'p':
			if o.Err != "" {
				return true, st // a failed write took no effect
			}
			return true, i.Val
		case 'd':
			if o.Err != "" {
				return true, st
			}
			return true, absent
		default:
			if o.Err != "" {
				return true, st // a failed read says nothing
			}
			if !o.Found {
				return st.(string) == absent, st
			}
			return st.(string) == o.Val, st
		}
	},
	DescribeOperation: func(in, out interface{}) string {
		i, o := in.(linIn), out.(linOut)
		switch i.Op {
		case 'p':
			return fmt.Sprintf("put(%s,%s)->%q", i.Key, i.Val, o.Err)
		case 'd':
			return fmt.Sprintf("del(%s)->%q", i.Key, o.Err)
		}
		if o.Found {
			return fmt.Sprintf("get(%s)->%s", i.Key, o.Val)
		}
		return fmt.Sprintf("get(%s)->absent %s", i.Key, o.Err)
	},
}

// concHistory runs the concurrent workload and returns the recorded history.
type concRun struct {
	ops       []porcupine.Operation
	rotations int64
	flushes   int64
	errs      int64
	dir       string
	cfg       kv.Cfg
	nclients  int
	nkeys     int
}

// concBatchPuts makes runConcurrent issue part of its puts as single-entry batches (set by C08 only).
var concBatchPuts atomic.Bool

func runConcurrent(c *core.Ctx, eng *engine.EngineFacade, r *core.Rand, nclients, nkeys, perClient int, withMaint bool) *concRun {
	keys := make([]string, nkeys)
	for i := range keys {
		keys[i] = fmt.Sprintf("lin%02d", i)
	}
	base := time.Now()
	now := func() int64 { return int64(time.Since(base)) }
	hist := make([][]porcupine.Operation, nclients+1)
	var wg sync.WaitGroup
	var stop atomic.Bool
	var rot, flushes, errs atomic.Int64
	verifhook.Set(func(site string) {
		switch site {
		case "storage.rotate.after_swap":
			rot.Add(1)
		case "storage.flushtable.after_finish":
			flushes.Add(1)
		}
	})
	defer verifhook.Set(nil)
	for cl := 0; cl < nclients; cl++ {
		wg.Add(1)
		rr := r.Derive(uint64(100 + cl))
		go func(cl int) {
			defer wg.Done()
			for i := 0; i < perClient; i++ {
				k := keys[rr.Intn(nkeys)]
				var in linIn
				var out linOut
				switch rr.Pick(40, 15, 45) {
				case 0:
					v := fmt.Sprintf("c%d.%d.%d", c.Idx, cl, i)
					if rr.Chance(10) {
						v += strings.Repeat("x", rr.Range(100, 3000))
					}
					in = linIn{'p', k, v}
				case 1:
					in = linIn{'d', k, ""}
				case 2:
					in = linIn{'g', k, ""}
				}
				t0 := now()
				switch in.Op {
				case 'p':
					var err error
					// the client owns its buffers: it reuses (here: overwrites) them as soon as the call has returned
					kb, vb := []byte(k), []byte(in.Val)
					if concBatchPuts.Load() && rr.Chance(40) {
						// the same write through the batch path of the log (the sequence counter is advanced at a different point there)
						err = eng.ApplyBatch([]*wal.Entry{{Type: wal.OpTypePut, Key: kb, Value: vb}})
					} else {
						err = eng.Put(kb, vb)
					}
					for i := range kb {
						kb[i] = 0xEE
					}
					for i := range vb {
						vb[i] = 0xEE
					}
					if err != nil {
						out.Err = err.Error()
						errs.Add(1)
					}
				case 'd':
					kb := []byte(k)
					if err := eng.Delete(kb); err != nil {
						out.Err = err.Error()
						errs.Add(1)
					}
					for i := range kb {
						kb[i] = 0xEE
					}
				case 'g':
					v, err := eng.Get([]byte(k))
					if err == nil {
						out.Val, out.Found = string(v), true
					} else if !kv.IsNotFound(err) {
						out.Err = err.Error()
					}
				}
				t1 := now()
				hist[cl] = append(hist[cl], porcupine.Operation{ClientId: cl, Input: in, Call: t0, Output: out, Return: t1})
				if rr.Chance(8) {
					time.Sleep(time.Duration(rr.Range(1, 300)) * time.Microsecond)
				}
			}
		}(cl)
	}
	var mwg sync.WaitGroup
	if withMaint {
		mwg.Add(1)
		go func() {
			defer mwg.Done()
			rr := r.Derive(999)
			for !stop.Load() {
				if rr.Chance(70) {
					eng.FlushImMemTables()
				} else {
					eng.TriggerCompaction()
				}
				time.Sleep(time.Duration(rr.Range(50, 3000)) * time.Microsecond)
			}
		}()
	}
	wg.Wait()
	stop.Store(true)
	mwg.Wait()
	// final reads (part of the history)
	for _, k := range keys {
		t0 := now()
		v, err := eng.Get([]byte(k))
		var out linOut
		if err == nil {
			out.Val, out.Found = string(v), true
		} else if !kv.IsNotFound(err) {
			out.Err = err.Error()
		}
		hist[nclients] = append(hist[nclients], porcupine.Operation{ClientId: nclients, Input: linIn{'g', k, ""}, Call: t0, Output: out, Return: now()})
	}
	run := &concRun{rotations: rot.Load(), flushes: flushes.Load(), errs: errs.Load(), nclients: nclients, nkeys: nkeys}
	for _, h := range hist {
		run.ops = append(run.ops, h...)
	}
	return run
}

func overlapsPerKey(ops []porcupine.Operation) int {
	byKey := map[string][]porcupine.Operation{}
	for _, o := range ops {
		k := o.Input.(linIn).Key
		byKey[k] = append(byKey[k], o)
	}
	n := 0
	for _, l := range byKey {
		sort.Slice(l, func(i, j int) bool { return l[i].Call < l[j].Call })
		maxRet := int64(-1)
		for _, o := range l {
			if o.Call < maxRet {
				n++
			}
			if o.Return > maxRet {
				maxRet = o.Return
			}
		}
	}
	return n
}

func eventSig(ops []porcupine.Operation) string {
	type ev struct {
		t int64
		s string
	}
	var evs []ev
	for _, o := range ops {
		i := o.Input.(linIn)
		evs = append(evs, ev{o.Call, fmt.Sprintf("c%d%c%s", o.ClientId, i.Op, i.Key)}, ev{o.Return, fmt.Sprintf("r%d", o.ClientId)})
	}
	sort.Slice(evs, func(i, j int) bool { return evs[i].t < evs[j].t })
	var b strings.Builder
	for _, e := range evs {
		b.WriteString(e.s)
	}
	return core.Sig(b.String())
}

func describeIllegal(ops []porcupine.Operation, info porcupine.LinearizationInfo) string {
	// print the sub-history of the first key whose partition is not linearizable
	parts := regModel.Partition(ops)
	for _, p := range parts {
		if porcupine.CheckOperations(porcupine.Model{Init: regModel.Init, Step: regModel.Step}, p) {
			continue
		}
		sort.Slice(p, func(i, j int) bool { return p[i].Call < p[j].Call })
		var b strings.Builder
		fmt.Fprintf(&b, "sub-history of key %s (%d operations, call/return in ns) is not linearizable:\n", p[0].Input.(linIn).Key, len(p))
		start := 0
		if len(p) > 70 {
			start = len(p) - 70
			fmt.Fprintf(&b, "  ... %d earlier operations omitted\n", start)
		}
		for _, o := range p[start:] {
			d := regModel.DescribeOperation(o.Input, o.Output)
			if len(d) > 90 {
				d = d[:90] + "..."
			}
			fmt.Fprintf(&b, "  client %2d [%9d,%9d] %s\n", o.ClientId, o.Call, o.Return, d)
		}
		return b.String()
	}
	return "history not linearizable"
}

func runC06(c *core.Ctx, res *core.Result) {
	if c.Idx%9 == 4 {
		c06IOFault(c, res)
		return
	}
	if c.Idx%45 == 14 {
		c06RotationRace(c, res)
		return
	}
	r := c.Rand
	cfg := kv.Cfg{MemTableSize: []int64{1, 64, 300, 1024, 4096}[r.Intn(5)], MaxMemTables: r.Range(1, 4), SyncMode: []int{0, 0, 1, 2}[r.Intn(4)], CompactSecs: 1}
	dir := filepath.Join(c.Dir, "db")
	eng, err := kv.Open(dir, cfg)
	if err != nil {
		res.Violate("open_error", err.Error(), nil)
		return
	}
	defer eng.Close()
	ypm := []int64{0, 50, 200, 600}[r.Intn(4)]
	verifhook.SetYield(r.U64(), ypm)
	defer verifhook.SetYield(0, 0)
	nclients := r.Range(4, 12)
	nkeys := r.Range(2, 6)
	per := r.Range(15, 45)
	if cfg.SyncMode == 2 {
		per = r.Range(10, 25)
	}
	run := runConcurrent(c, eng, r, nclients, nkeys, per, true)
	verifhook.SetYield(0, 0)
	res.Count("operations", int64(len(run.ops)))
	res.Count("rotations_in_histories", run.rotations)
	res.Count("flushes_in_histories", run.flushes)
	res.Count("write_errors", run.errs)
	ov := overlapsPerKey(run.ops)
	res.Count("overlapping_pairs_per_key", int64(ov))
	result, info := porcupine.CheckOperationsVerbose(regModel, run.ops, 20*time.Second)
	feat := map[string]string{"sync": fmt.Sprint(cfg.SyncMode), "write_errors": fmt.Sprint(run.errs > 0)}
	switch result {
	case porcupine.Illegal:
		res.Violate("not_linearizable", fmt.Sprintf("config %s, %d clients, %d keys, yield %d/1000, %d rotations, %d write errors\n%s", cfg, nclients, nkeys, ypm, run.rotations, run.errs, describeIllegal(run.ops, info)), feat)
	case porcupine.Unknown:
		res.Inconclusive = "porcupine timeout"
	}
	res.Sig = eventSig(run.ops)
	res.Nontrivial = ov > 0 && run.rotations > 0
	if c.Idx < 2 {
		var s []string
		for i, o := range run.ops {
			if i >= 12 {
				break
			}
			s = append(s, fmt.Sprintf("client %d [%d,%d] %s", o.ClientId, o.Call, o.Return, regModel.DescribeOperation(o.Input, o.Output)))
		}
		res.Sample = map[string]interface{}{"case": c.Idx, "config": cfg, "clients": nclients, "keys": nkeys, "operations": len(run.ops), "overlapping_pairs": ov,
			"rotations": run.rotations, "yield_permille": ypm, "history_head": s}
	}
}

// ---------------------------------------------------------------------------
// C08

func init() {
	core.Register(&core.Monitor{
		ID:    "C08",
		Level: "exploration",
		Rule: "three observation channels. (1) sequential programs (C01 generator incl. flush, rotation, compaction, clean restarts, batches and transactions of every size): after every client " +
			"call storage_last_sequence (statistics) and the log's next sequence are sampled and must never decrease, also across restarts; at the end the log directory is read back and the i-th " +
			"acknowledged unit (identified by its unique value ids) must carry a sequence strictly greater than every earlier acknowledged unit, entries of one batch share one number, file order " +
			"= sequence order. (2) crash recoveries: a child is killed at PRNG hook sites, after recovery the next write must be stamped above everything in the log. (3) concurrent histories " +
			"(C06 workload): for every pair of successful writes with A.return < B.call, seq(A) < seq(B), sequences read back from the log through the unique values. " +
			"Further kinds: torn newest log file in 40% of the post-crash cases; retention at the acknowledged sequence followed by a restart (1/24); staged batch-vs-rotation schedule (1/48); 40% of the concurrent puts go through the batch path. distinct = hash(config, op kinds / event order); non-trivial = >= 1 rotation or restart between sampled writes",
		Assumptions: []string{"a restart after the log was retired completely restarts the counter (known limitation recorded as finding D36); everywhere else the oracle is strict"},
		NumCases: func(tier string) int {
			if tier == "thorough" {
				return 6000
			}
			return 600
		},
		Run:         runC08,
		CaseTimeout: 10 * time.Minute,
	})
}

type seqEnt struct {
	seq  uint64
	file int
	pos  int
	typ  uint8
	key  string
	val  string
}

func readLogSeq(walDir string) ([]seqEnt, error) {
	files, _ := wal.FindWALFiles(walDir)
	var out []seqEnt
	for fi, f := range files {
		pos := 0
		_, err := wal.ReplayWALFile(f, func(e *wal.Entry) error {
			out = append(out, seqEnt{e.SequenceNumber, fi, pos, e.Type, string(e.Key), string(e.Value)})
			pos++
			return nil
		})
		if err != nil {
			return out, fmt.Errorf("%s: %v", filepath.Base(f), err)
		}
	}
	return out, nil
}

func runC08(c *core.Ctx, res *core.Result) {
	if c.Idx%24 == 23 {
		c08Retired(c, res)
		return
	}
	if c.Idx%24 == 11 {
		c08RetentionAtAck(c, res)
		return
	}
	if c.Idx%48 == 17 {
		c08BatchVsRotation(c, res)
		return
	}
	switch c.Idx % 6 {
	case 0, 1, 2:
		c08Sequential(c, res)
	case 3:
		c08Crash(c, res)
	default:
		c08Concurrent(c, res)
	}
}

func c08Sequential(c *core.Ctx, res *core.Result) {
	r := c.Rand
	cfg := kv.GenCfg(r)
	o := kv.GenOpts{NOps: r.Range(30, 100), NKeys: r.Range(3, 16), BigValues: r.Chance(20), Maintenance: r.Range(6, 18), Reopen: true, Tx: true, Batch: true, BigTxPct: 10}
	ks := kv.GenKeySpace(r, o.NKeys)
	prog := kv.GenProgram(r, ks, fmt.Sprintf("c%d", c.Idx), o)
	if r.Chance(25) {
		// a database whose log holds a single write before its first restart
		prog = append([]kv.Op{prog[0], {Kind: "reopen"}}, prog[1:]...)
		if !kv.IsUnit(prog[0]) {
			prog[0] = kv.Op{Kind: "put", Key: ks.Keys[0], Val: []byte(fmt.Sprintf("c%d/0|first", c.Idx))}
		}
	}
	x, err := kv.NewExec(c.Dir+"/db", cfg, res, r)
	if err != nil {
		res.Violate("open_error", err.Error(), nil)
		return
	}
	x.CheckSeq = true
	x.CheckEvery = 1000
	x.Run(prog)
	x.Close()
	if x.Failed {
		return
	}
	// log read-back: order of acknowledged units vs sequence numbers
	ents, err := readLogSeq(filepath.Join(c.Dir, "db", "wal"))
	if err != nil {
		res.Violate("log_unreadable", err.Error(), nil)
		return
	}
	// file order = sequence order; batches share a number
	for i := 1; i < len(ents); i++ {
		if ents[i].seq < ents[i-1].seq {
			res.Violate("sequence_order", fmt.Sprintf("log entry %d (file %d) has sequence %d after sequence %d: file order is not sequence order\nconfig %s", i, ents[i].file, ents[i].seq, ents[i-1].seq, cfg), map[string]string{"mode": "sequential"})
			return
		}
	}
	// map unique values to sequence numbers; acknowledged order = program order
	seqOf := map[string][]uint64{}
	for _, e := range ents {
		if e.typ == wal.OpTypePut && len(e.val) > 0 {
			seqOf[e.val] = append(seqOf[e.val], e.seq)
		}
	}
	var last uint64
	lastUnit := ""
	rot := 0
	for _, op := range prog {
		switch op.Kind {
		case "flush", "reopen":
			rot++
		}
		if !kv.IsUnit(op) {
			continue
		}
		var useq uint64
		have := false
		check := func(v []byte) bool {
			if len(v) == 0 {
				return true
			}
			ss := seqOf[string(v)]
			if len(ss) == 0 {
				return true // unit failed or value was overwritten inside the same transaction
			}
			s := ss[len(ss)-1]
			if have && s != useq {
				res.Violate("batch_sequence_split", fmt.Sprintf("entries of one unit %s carry different sequence numbers %d and %d", op.String(), useq, s), map[string]string{"mode": "sequential"})
				return false
			}
			useq, have = s, true
			return true
		}
		if op.Kind == "put" {
			if !check(op.Val) {
				return
			}
		}
		final := map[string][]byte{}
		for _, s := range op.Sub {
			if s.Kind == "put" {
				final[string(s.Key)] = s.Val
			} else if s.Kind == "del" {
				delete(final, string(s.Key))
			}
		}
		for _, v := range final {
			if !check(v) {
				return
			}
		}
		if have {
			if useq <= last {
				res.Violate("sequence_not_increasing", fmt.Sprintf("unit %s was stamped %d, not above the earlier acknowledged unit %s stamped %d\nconfig %s", op.String(), useq, lastUnit, last, cfg), map[string]string{"mode": "sequential"})
				return
			}
			last, lastUnit = useq, op.String()
			res.Count("units_with_sequence", 1)
		}
	}
	kinds := ""
	for _, op := range prog {
		kinds += op.Kind[:2]
	}
	res.Sig = core.Sig(cfg.String(), kinds)
	res.Nontrivial = rot > 0 && res.Counters["units_with_sequence"] > 1
	if c.Idx < 3 {
		res.Sample = map[string]interface{}{"case": c.Idx, "mode": "sequential", "config": cfg, "log_entries": len(ents), "units_with_sequence": res.Counters["units_with_sequence"], "seq_samples": res.Counters["seq_samples"]}
	}
}

func c08Crash(c *core.Ctx, res *core.Result) {
	r := c.Rand
	cfg := kv.Cfg{MemTableSize: []int64{1, 300, 4096, 1 << 20}[r.Intn(4)], MaxMemTables: r.Range(1, 4), SyncMode: r.Intn(3), CompactSecs: 3600}
	o := kv.GenOpts{NOps: r.Range(3, 50), NKeys: r.Range(2, 10), Maintenance: 4, Tx: true, Batch: true, BigValues: r.Chance(40)}
	if r.Chance(20) {
		o.NOps = 1
	}
	tornCase := r.Chance(40)
	if tornCase && r.Chance(70) {
		// one log file holding entries larger than a log record
		cfg.MemTableSize = 32 << 20
		o.BigValues = true
		o.NOps = r.Range(10, 50)
	}
	dir := filepath.Join(c.Dir, "db")
	spec := &kv.ChildSpec{Dir: dir, Cfg: cfg, Seed: r.U64(), Tag: fmt.Sprintf("c%d", c.Idx), Opts: o, KeySeed: r.U64(), Journal: filepath.Join(c.Dir, "journal"), Profile: filepath.Join(c.Dir, "profile")}
	// profile in a scratch directory, then kill in the real one
	spec.Dir = filepath.Join(c.Dir, "prof")
	if err, _ := kv.RunChild(c.Self, spec, filepath.Join(c.Dir, "spec.json"), "", "", time.Minute); err != nil {
		res.Inconclusive = "profile run failed"
		return
	}
	prof := kv.ReadProfile(spec.Profile)
	pts := pickCrashPoints(r, prof, 1, func(s string) bool { return !strings.HasPrefix(s, "wal.locked.") })
	spec.Dir = dir
	spec.Profile = ""
	crash := ""
	if len(pts) == 1 && r.Chance(85) {
		crash = fmt.Sprintf("%s:%d", pts[0].Site, pts[0].N)
	}
	kv.RunChild(c.Self, spec, filepath.Join(c.Dir, "spec.json"), crash, "", time.Minute)
	// in 40% of the cases the newest log file additionally ends in a torn write: cut between two fragments of a
	// large entry (or between two records of a batch) if there is such a place, else at a PRNG offset near the end
	torn := ""
	if wf, _ := filepath.Glob(filepath.Join(dir, "wal", "*.wal")); len(wf) > 0 && tornCase {
		sort.Strings(wf)
		f := wf[len(wf)-1]
		if raw, rerr := os.ReadFile(f); rerr == nil && len(raw) > 7 {
			var inner []int
			for pos := 0; pos+7 <= len(raw); {
				typ := raw[pos+6]
				pos += 7 + int(raw[pos+4]) + int(raw[pos+5])<<8
				if (typ == 2 || typ == 3) && pos < len(raw) {
					inner = append(inner, pos) // behind a FIRST or MIDDLE fragment
				}
			}
			cut := len(raw) - 1 - r.Intn(min(len(raw)-1, 200))
			if len(inner) > 0 && r.Chance(70) {
				cut = inner[r.Intn(len(inner))]
				torn = "between_fragments"
			} else {
				torn = "inside_record"
			}
			os.Truncate(f, int64(cut))
			res.Count("torn_tails_"+torn, 1)
		}
	}
	before, err := readLogSeq(filepath.Join(dir, "wal"))
	_ = err // a torn tail is possible after a kill; what was read is what counts
	var max uint64
	for _, e := range before {
		if e.seq > max {
			max = e.seq
		}
	}
	eng, err := engine.NewEngineFacade(dir)
	if err != nil {
		res.Violate("recovery_open_failed", err.Error(), nil)
		return
	}
	marker := []byte(fmt.Sprintf("after-recovery-%d", c.Idx))
	err = eng.Put([]byte("zz-marker"), marker)
	for try := 0; try < 5 && kv.IsEngineBusy(err); try++ {
		time.Sleep(50 * time.Millisecond)
		err = eng.Put([]byte("zz-marker"), marker)
	}
	if err != nil {
		eng.Close()
		res.Violate("write_after_recovery_failed", err.Error(), nil)
		return
	}
	st := eng.GetStats()
	eng.Close()
	after, _ := readLogSeq(filepath.Join(dir, "wal"))
	var mseq uint64
	found := false
	for _, e := range after {
		if e.val == string(marker) {
			mseq, found = e.seq, true
		}
	}
	res.Count("recoveries", 1)
	feat := map[string]string{"mode": "crash", "log_entries_before": fmt.Sprint(len(before)), "torn_tail": torn}
	if torn != "" {
		crash += " + log cut " + torn
	}
	if !found {
		res.Violate("post_recovery_write_missing_from_log", "the write made after the recovery is not in the log", feat)
		return
	}
	if len(before) > 0 && mseq <= max {
		res.Violate("sequence_not_increasing", fmt.Sprintf("after a recovery (armed crash %q, %d log entries, highest sequence %d) the next write was stamped %d\nconfig %s", crash, len(before), max, mseq, cfg), feat)
		return
	}
	if v, ok := st["storage_last_sequence"].(uint64); ok && v < max {
		res.Violate("sequence_regression", fmt.Sprintf("statistics report last sequence %d after a recovery of a log whose highest sequence is %d", v, max), feat)
		return
	}
	res.Sig = core.Sig("crash", cfg.String(), crash, len(before))
	res.Nontrivial = len(before) > 0
	if c.Idx == 3 {
		res.Sample = map[string]interface{}{"case": c.Idx, "mode": "crash", "config": cfg, "armed_crash": crash, "log_entries_before_recovery": len(before), "highest_sequence": max, "next_write_stamped": mseq}
	}
}

func c08Concurrent(c *core.Ctx, res *core.Result) {
	r := c.Rand
	cfg := kv.Cfg{MemTableSize: []int64{64, 300, 1024, 4096}[r.Intn(4)], MaxMemTables: r.Range(1, 4), SyncMode: []int{0, 0, 1, 2}[r.Intn(4)], CompactSecs: 3600}
	dir := filepath.Join(c.Dir, "db")
	eng, err := kv.Open(dir, cfg)
	if err != nil {
		res.Violate("open_error", err.Error(), nil)
		return
	}
	ypm := []int64{0, 100, 500}[r.Intn(3)]
	verifhook.SetYield(r.U64(), ypm)
	// sample the statistics concurrently: must never decrease
	var stop atomic.Bool
	var regress string
	var swg sync.WaitGroup
	swg.Add(1)
	go func() {
		defer swg.Done()
		var last uint64
		for !stop.Load() {
			if v, ok := eng.GetStats()["storage_last_sequence"].(uint64); ok {
				if v < last && regress == "" {
					regress = fmt.Sprintf("storage_last_sequence went from %d to %d while clients were writing", last, v)
				}
				last = v
			}
			time.Sleep(50 * time.Microsecond)
		}
	}()
	concBatchPuts.Store(true)
	run := runConcurrent(c, eng, r, r.Range(3, 8), r.Range(2, 5), r.Range(15, 40), true)
	concBatchPuts.Store(false)
	stop.Store(true)
	swg.Wait()
	verifhook.SetYield(0, 0)
	eng.Close()
	feat := map[string]string{"mode": "concurrent"}
	if regress != "" {
		res.Violate("sequence_regression", regress+"\nconfig "+cfg.String(), feat)
		return
	}
	ents, err := readLogSeq(filepath.Join(dir, "wal"))
	if err != nil {
		res.Violate("log_unreadable", err.Error(), nil)
		return
	}
	seqOf := map[string]uint64{}
	dup := map[string]int{}
	for _, e := range ents {
		if e.typ == wal.OpTypePut {
			seqOf[e.val] = e.seq
			dup[e.val]++
		}
	}
	// successful puts in real-time order: running maximum sweep
	type w struct {
		call, ret int64
		seq       uint64
		val       string
	}
	var ws []w
	for _, o := range run.ops {
		in, out := o.Input.(linIn), o.Output.(linOut)
		if in.Op != 'p' || out.Err != "" {
			continue
		}
		s, ok := seqOf[in.Val]
		if !ok {
			res.Violate("acknowledged_write_not_in_log", fmt.Sprintf("put(%s,%s) was acknowledged but is not in the log", in.Key, shorten(in.Val)), feat)
			return
		}
		ws = append(ws, w{o.Call, o.Return, s, in.Val})
	}
	sort.Slice(ws, func(i, j int) bool { return ws[i].call < ws[j].call })
	// for each write B (by call time) compare with the max sequence among writes that returned before B was called
	byRet := append([]w{}, ws...)
	sort.Slice(byRet, func(i, j int) bool { return byRet[i].ret < byRet[j].ret })
	j := 0
	var maxSeq uint64
	var maxVal string
	for _, b := range ws {
		for j < len(byRet) && byRet[j].ret < b.call {
			if byRet[j].seq > maxSeq {
				maxSeq, maxVal = byRet[j].seq, byRet[j].val
			}
			j++
		}
		if maxSeq > 0 && b.seq <= maxSeq {
			res.Violate("sequence_not_increasing", fmt.Sprintf("put %s was called after put %s had returned but is stamped %d <= %d\nconfig %s, %d rotations", shorten(b.val), shorten(maxVal), b.seq, maxSeq, cfg, run.rotations), feat)
			return
		}
	}
	res.Count("concurrent_writes_ordered", int64(len(ws)))
	res.Count("rotations_in_histories", run.rotations)
	res.Sig = eventSig(run.ops)
	res.Nontrivial = run.rotations > 0 && len(ws) > 1
	if c.Idx == 4 {
		res.Sample = map[string]interface{}{"case": c.Idx, "mode": "concurrent", "config": cfg, "successful_puts": len(ws), "rotations": run.rotations, "log_entries": len(ents)}
	}
	_ = bytes.Equal
}

func shorten(s string) string {
	if len(s) > 30 {
		return s[:30] + "..."
	}
	return s
}

// c08Retired: the whole log is retired (everything flushed, log files removed - what retention is
// entitled to do) before a restart. The counter is recovered from log entries only.
func c08Retired(c *core.Ctx, res *core.Result) {
	r := c.Rand
	cfg := kv.Cfg{MemTableSize: []int64{300, 4096, 1 << 20}[r.Intn(3)], MaxMemTables: r.Range(1, 4), SyncMode: r.Intn(3), CompactSecs: 3600}
	dir := filepath.Join(c.Dir, "db")
	eng, err := kv.Open(dir, cfg)
	if err != nil {
		res.Violate("open_error", err.Error(), nil)
		return
	}
	n := r.Range(5, 40)
	for i := 0; i < n; i++ {
		eng.Put([]byte(fmt.Sprintf("k%02d", r.Intn(8))), []byte(fmt.Sprintf("v%d", i)))
	}
	before, _ := eng.GetStats()["storage_last_sequence"].(uint64)
	eng.FlushImMemTables()
	eng.FlushImMemTables()
	eng.Close()
	files, _ := filepath.Glob(filepath.Join(dir, "wal", "*.wal"))
	for _, f := range files {
		os.Remove(f)
	}
	eng, err = kv.Open(dir, cfg)
	if err != nil {
		res.Violate("open_error", err.Error(), nil)
		return
	}
	defer eng.Close()
	after, _ := eng.GetStats()["storage_last_sequence"].(uint64)
	eng.Put([]byte("after"), []byte("restart"))
	next := eng.GetWAL().GetNextSequence() - 1
	feat := map[string]string{"mode": "retired", "log_fully_retired_before_restart": "true"}
	res.Count("full_retirement_restarts", 1)
	if after < before || next <= before {
		res.Violate("sequence_regression", fmt.Sprintf("%d writes (last sequence %d), everything flushed, all log files retired, restart: statistics report last sequence %d and the next write is stamped %d", n, before, after, next), feat)
	}
	res.Sig = core.Sig("retired", cfg.String(), n)
	res.Nontrivial = true
}

// c08RetentionAtAck: the log retention a replication primary runs after an acknowledgement
// (WAL.ManageRetention{MinSequenceKeep: acknowledged sequence}) on the running engine, with the
// acknowledged sequence on or next to the last sequence of a rotated log file, then a clean restart:
// every entry from MinSequenceKeep on must still be in the log and the counter must continue above it.
func c08RetentionAtAck(c *core.Ctx, res *core.Result) {
	r := c.Rand
	cfg := kv.Cfg{MemTableSize: 32 << 20, MaxMemTables: 4, SyncMode: r.Intn(3), CompactSecs: 3600}
	dir := filepath.Join(c.Dir, "db")
	eng, err := kv.Open(dir, cfg)
	if err != nil {
		res.Violate("open_error", err.Error(), nil)
		return
	}
	rounds := r.Range(1, 4)
	var lastOfFile []uint64 // last sequence written before each rotation
	for i := 0; i < rounds; i++ {
		for j := r.Range(1, 12); j > 0; j-- {
			eng.Put([]byte(fmt.Sprintf("k%02d", r.Intn(8))), []byte(fmt.Sprintf("v%d.%d", i, j)))
		}
		eng.FlushImMemTables() // rotates the log
		lastOfFile = append(lastOfFile, eng.GetWAL().GetNextSequence()-1)
	}
	tail := r.Chance(40)
	if tail {
		eng.Put([]byte("tail"), []byte("in the current file"))
	}
	before := eng.GetWAL().GetNextSequence() - 1
	ack := lastOfFile[r.Intn(len(lastOfFile))] + uint64(r.Range(-1, 1))
	if r.Chance(40) {
		ack = lastOfFile[len(lastOfFile)-1] // everything in the rotated files is acknowledged
	}
	deleted, rerr := eng.GetWAL().ManageRetention(wal.WALRetentionConfig{MinSequenceKeep: ack})
	eng.Close()
	desc := fmt.Sprintf("%d rotations (last sequences %v), write in the current file=%v, last sequence %d; ManageRetention{MinSequenceKeep: %d} deleted %d files (err %v); clean restart", rounds, lastOfFile, tail, before, ack, deleted, rerr)
	feat := map[string]string{"mode": "retention_at_ack"}
	// every entry from the acknowledged sequence on is still in the log
	have := map[uint64]bool{}
	wal.ReplayWALDir(filepath.Join(dir, "wal"), func(e *wal.Entry) error { have[e.SequenceNumber] = true; return nil })
	for s := ack; s <= before && s > 0; s++ {
		if !have[s] {
			res.Violate("retention_removed_needed_entry", fmt.Sprintf("%s: sequence %d (>= MinSequenceKeep) is no longer in any log file", desc, s), feat)
			return
		}
	}
	eng, err = kv.Open(dir, cfg)
	if err != nil {
		res.Violate("open_error", err.Error(), nil)
		return
	}
	defer eng.Close()
	eng.Put([]byte("after"), []byte("restart"))
	next := eng.GetWAL().GetNextSequence() - 1
	res.Count("retention_at_ack_restarts", 1)
	res.Count("log_files_retired_online", int64(deleted))
	if next <= before {
		if len(have) == 0 && ack > before {
			// everything was acknowledged and legitimately retired: no entry is left to recover the counter from (D36)
			feat = map[string]string{"mode": "retired", "log_fully_retired_before_restart": "true", "via": "online_retention"}
		}
		res.Violate("sequence_regression", fmt.Sprintf("%s: the next write is stamped %d", desc, next), feat)
	}
	res.Sig = core.Sig("retention_at_ack", rounds, tail, ack, before)
	res.Nontrivial = deleted > 0 || ack == lastOfFile[len(lastOfFile)-1]
}
