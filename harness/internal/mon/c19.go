package mon

import (
	"bytes"
	"context"
	"fmt"
	"sort"
	"strings"
	"sync"
	"time"

	"github.com/KevoDB/kevo/pkg/transaction"
	pb "github.com/KevoDB/kevo/proto/kevo"

	"verif/internal/core"
	"verif/internal/kv"
)

func init() {
	core.Register(&core.Monitor{
		ID:    "C19",
		Level: "exploration",
		Rule: "an in-process gRPC server (bufconn; transport limits raised so that the service's own limits apply) with the real KevoServiceServer, transaction registry and engine is driven " +
			"through the generated client stubs with generated request sequences: get/put/delete/batch write (1..1001 operations, repeated keys, invalid keys at PRNG positions), scans with every " +
			"combination of range/prefix/suffix/limit, transactions by handle (read-only and read-write, TxGet/TxPut/TxDelete/TxScan, commit/rollback, two read-only handles at once), node info, " +
			"boundary requests (key length 0/1/4096/4097, value 10MB/10MB+1, unknown and finished handles). Oracle: the sequential map model + sorted scan model (what the embedded calls return); " +
			"rejected requests leave model, engine and lock state unchanged (a fresh read-write transaction must begin within 5s after every rejection); a finished handle is unusable. " +
			"Every 4th case lets 2-3 clients begin transactions at the same time behind a lock holder (distinct, independently usable handles); every 4th case abandons a 360KB scan after 1-4 rows and probes the lock. distinct = hash of the request-kind sequence; non-trivial = >= 1 transaction by handle, >= 1 scan with options and >= 1 rejected request in the sequence",
		Assumptions: []string{"scan option precedence as implemented and documented: prefix and/or suffix given => filter only; otherwise range; empty bound = unbounded",
			"a TxGet with an invalid key may end the transaction (documented 'automatic release'); the monitor probes the handle afterwards and follows either outcome",
			"requests that need the database lock are not issued while the same client holds a read-write handle (excluded by the documented single-lock limitation)"},
		NumCases: func(tier string) int {
			if tier == "thorough" {
				return 3000
			}
			return 240
		},
		Run:         runC19,
		CaseTimeout: 3 * time.Minute,
		HangClass:   "service_request_hangs",
	})
}

type svcTx struct {
	id      string
	ro      bool
	overlay *kv.Model
	wrote   bool
}

func runC19(c *core.Ctx, res *core.Result) {
	r := c.Rand
	cfg := kv.Cfg{MemTableSize: []int64{300, 4096, 1 << 20, 32 << 20}[r.Intn(4)], MaxMemTables: r.Range(1, 4), SyncMode: 0, CompactSecs: 3600}
	eng, err := kv.Open(c.Dir+"/db", cfg)
	if err != nil {
		res.Violate("open_error", err.Error(), nil)
		return
	}
	defer eng.Close()
	env, err := startSvc(eng, transaction.NewRegistry(), nil)
	if err != nil {
		res.Inconclusive = "cannot start in-process server: " + err.Error()
		return
	}
	defer env.Stop()
	cl := env.Client
	model := kv.NewModel()
	var trace []string
	kinds := ""
	rejected, txByHandle, optScans := 0, 0, 0
	// The embedded engine gives up a write with "WAL is rotating" when its log stays in rotation longer than
	// its three retries (seen under machine load with 300-byte memtables). The service passes that error on
	// unchanged - the same observable result as the embedded call - so it is not a C19 violation; the write
	// must have had no effect (the model is not updated and the final comparison still runs).
	transient := false
	fail := func(class, msg string) {
		if class == "request_failed" && strings.Contains(msg, "WAL is rotating") {
			transient = true
			res.Count("engine_errors_passed_through", 1)
			return
		}
		res.Violate(class, fmt.Sprintf("%s\nconfig %s; requests so far:\n%s", msg, cfg, tail(trace, 80)), map[string]string{"layer": "service"})
	}
	nk := r.Range(4, 20)
	var keys [][]byte
	ks := kv.GenKeySpace(r, nk)
	keys = ks.Keys
	// a cluster of keys around a 0xFF boundary for prefix scans
	pfx := []byte(fmt.Sprintf("px%d", r.Intn(3)))
	for i := 0; i < 4; i++ {
		keys = append(keys, append(append([]byte{}, pfx...), []byte{[]byte{0xff, 0x00, 'a', 0xfe}[i], byte(r.Intn(256))}[:1+r.Intn(2)]...))
	}
	pick := func() []byte { return keys[r.Intn(len(keys))] }
	badKey := func() []byte {
		if r.Bool() {
			return nil
		}
		return bytes.Repeat([]byte("K"), 4097)
	}
	uniq := 0
	val := func() []byte {
		uniq++
		switch r.Pick(6, 60, 25, 6, 1) {
		case 0:
			return nil
		case 1:
			return []byte(fmt.Sprintf("s%d.%d", c.Idx, uniq))
		case 2:
			return append([]byte(fmt.Sprintf("s%d.%d|", c.Idx, uniq)), bytes.Repeat([]byte("v"), r.Range(50, 4000))...)
		case 3:
			return append([]byte(fmt.Sprintf("s%d.%d|", c.Idx, uniq)), bytes.Repeat([]byte("V"), 40000)...)
		}
		return append([]byte(fmt.Sprintf("s%d.%d|", c.Idx, uniq)), bytes.Repeat([]byte("M"), 1<<20)...)
	}
	var rw *svcTx
	var ros []*svcTx
	probe := func(after string) bool {
		if rw != nil || len(ros) > 0 {
			return true // the client itself legitimately holds the lock
		}
		ctx, cancel := ctxT(5 * time.Second)
		defer cancel()
		resp, err := cl.BeginTransaction(ctx, &pb.BeginTransactionRequest{ReadOnly: false})
		if err != nil {
			fail("lock_leaked_by_request", fmt.Sprintf("after %s a fresh read-write transaction could not begin within 5s: %v", after, err))
			return false
		}
		cl.RollbackTransaction(ctx, &pb.RollbackTransactionRequest{TransactionId: resp.TransactionId})
		res.Count("lock_probes", 1)
		return true
	}
	checkRows := func(what string, rows []scanRow, m *kv.Model, in func([]byte) bool, limit int) bool {
		var got []kv.KVPair
		for _, rw := range rows {
			got = append(got, kv.KVPair{K: rw.K, V: rw.V})
		}
		if limit > 0 {
			// with a limit the result must be the first `limit` rows of the full answer
			var want []string
			for _, k := range m.Sorted() {
				if in([]byte(k)) {
					want = append(want, k)
				}
			}
			if len(want) > limit {
				want = want[:limit]
			}
			if len(got) != len(want) {
				fail("scan_mismatch", fmt.Sprintf("%s returned %d rows, the embedded answer has %d", what, len(got), len(want)))
				return false
			}
			for i := range got {
				if string(got[i].K) != want[i] || !bytes.Equal(got[i].V, m.M[want[i]]) {
					fail("scan_mismatch", fmt.Sprintf("%s row %d is %s=%s, the embedded answer has %s=%s", what, i, kv.Q(got[i].K), kv.Q(got[i].V), kv.Q([]byte(want[i])), kv.Q(m.M[want[i]])))
					return false
				}
			}
			return true
		}
		if msg := kv.CheckScanF(got, m, in); msg != "" {
			fail("scan_mismatch", what+": "+msg)
			return false
		}
		return true
	}
	genScan := func() (pre, suf, a, b []byte, limit int, in func([]byte) bool, desc string) {
		if r.Chance(45) {
			k := pick()
			pre = k[:r.Range(1, min(len(k), 4))]
			if r.Chance(25) {
				pre = pfx
			}
		}
		if r.Chance(25) {
			k := pick()
			suf = k[len(k)-1:]
		}
		if r.Chance(50) {
			a = pick()
			if r.Chance(30) {
				a = append(append([]byte{}, a...), 0)
			}
		}
		if r.Chance(50) {
			b = pick()
		}
		if r.Chance(35) {
			limit = r.Range(1, 6)
		}
		in = func(k []byte) bool {
			if len(pre) > 0 || len(suf) > 0 {
				return (len(pre) == 0 || bytes.HasPrefix(k, pre)) && (len(suf) == 0 || bytes.HasSuffix(k, suf))
			}
			if len(a) > 0 && bytes.Compare(k, a) < 0 {
				return false
			}
			if len(b) > 0 && bytes.Compare(k, b) >= 0 {
				return false
			}
			return true
		}
		desc = fmt.Sprintf("prefix=%s suffix=%s start=%s end=%s limit=%d", kv.Q(pre), kv.Q(suf), kv.Q(a), kv.Q(b), limit)
		return
	}
	n := r.Range(25, 70)
	if c.Thorough {
		n = r.Range(25, 160)
	}
	for step := 0; step < n && len(res.Violations) == 0 && !transient; step++ {
		ctx, cancel := ctxT(60 * time.Second)
		locked := rw != nil    // requests needing the write lock or a read lock would block
		roHeld := len(ros) > 0 // requests needing the write lock would block
		op := r.Pick(14, 8, 14, 6, 10, 10, 14, 2, 3, 5)
		switch op {
		case 0: // Put
			k, v := pick(), val()
			bad := r.Chance(6)
			if bad {
				k = badKey()
			}
			_, err := cl.Put(ctx, &pb.PutRequest{Key: k, Value: v})
			trace = append(trace, fmt.Sprintf("Put(%s,%s) -> %v", kv.Q(k), kv.Q(v), err))
			kinds += "P"
			if bad {
				rejected++
				if err == nil {
					fail("invalid_request_accepted", "Put with an invalid key length was accepted")
				} else {
					probe("a rejected Put")
				}
			} else if err != nil {
				fail("request_failed", "Put failed: "+err.Error())
			} else {
				model.Put(k, v)
				if rw != nil {
					// own open transaction reads through to storage for keys it has not written
					if _, mine := rw.overlay.Ever[string(k)]; !mine || !rw.wrote {
					}
				}
			}
		case 1: // Delete
			k := pick()
			bad := r.Chance(6)
			if bad {
				k = badKey()
			}
			_, err := cl.Delete(ctx, &pb.DeleteRequest{Key: k})
			trace = append(trace, fmt.Sprintf("Delete(%s) -> %v", kv.Q(k), err))
			kinds += "D"
			if bad {
				rejected++
				if err == nil {
					fail("invalid_request_accepted", "Delete with an invalid key length was accepted")
				}
			} else if err != nil {
				fail("request_failed", "Delete failed: "+err.Error())
			} else {
				model.Del(k)
			}
		case 2: // Get
			k := pick()
			if r.Chance(5) {
				k = []byte("never-written-key")
			}
			resp, err := cl.Get(ctx, &pb.GetRequest{Key: k})
			kinds += "G"
			if err != nil {
				fail("request_failed", "Get failed: "+err.Error())
				break
			}
			want, live := model.Get(k)
			trace = append(trace, fmt.Sprintf("Get(%s) -> found=%v %s", kv.Q(k), resp.Found, kv.Q(resp.Value)))
			if resp.Found != live || (live && !bytes.Equal(resp.Value, want)) {
				fail("get_mismatch", fmt.Sprintf("Get(%s) = found=%v %s; the embedded answer is found=%v %s", kv.Q(k), resp.Found, kv.Q(resp.Value), live, kv.Q(want)))
			}
		case 3: // BatchWrite
			if locked || roHeld {
				break
			}
			m := r.Range(1, 10)
			if r.Chance(6) {
				m = []int{1000, 1001}[r.Intn(2)]
			}
			var ops []*pb.Operation
			tmp := model.Clone()
			badAt := -1
			if r.Chance(15) && m <= 1000 {
				badAt = r.Intn(m)
			}
			big := false
			for i := 0; i < m; i++ {
				k := pick()
				if m > 20 {
					if len(k) > 4000 {
						k = []byte("big")
					}
					k = append(append([]byte{}, k...), []byte(fmt.Sprintf("~%04d", i))...)
					keys = append(keys, k)
				}
				if i == badAt {
					if r.Chance(20) && m < 5 {
						ops = append(ops, &pb.Operation{Type: pb.Operation_PUT, Key: k, Value: make([]byte, 10*1024*1024+1)})
						big = true
					} else {
						ops = append(ops, &pb.Operation{Type: pb.Operation_PUT, Key: badKey(), Value: []byte("x")})
					}
					continue
				}
				if r.Chance(25) {
					ops = append(ops, &pb.Operation{Type: pb.Operation_DELETE, Key: k})
					tmp.Del(k)
				} else {
					v := val()
					if m > 20 && len(v) > 200 {
						v = v[:200]
					}
					ops = append(ops, &pb.Operation{Type: pb.Operation_PUT, Key: k, Value: v})
					tmp.Put(k, v)
				}
			}
			_, err := cl.BatchWrite(ctx, &pb.BatchWriteRequest{Operations: ops})
			trace = append(trace, fmt.Sprintf("BatchWrite(%d ops, invalid op at %d, oversized=%v) -> %v", m, badAt, big, err))
			kinds += "B"
			if badAt >= 0 || m > 1000 {
				rejected++
				if err == nil {
					fail("invalid_request_accepted", fmt.Sprintf("BatchWrite with %d operations / an invalid operation at %d was accepted", m, badAt))
				} else {
					// no side effects: checked by the reads that follow; the lock must be free
					probe("a rejected BatchWrite")
				}
			} else if err != nil {
				fail("request_failed", "BatchWrite failed: "+err.Error())
			} else {
				model = tmp
			}
		case 4: // Scan with options
			if locked {
				break
			}
			pre, suf, a, b, limit, in, desc := genScan()
			st, err := cl.Scan(ctx, &pb.ScanRequest{Prefix: pre, Suffix: suf, StartKey: a, EndKey: b, Limit: int32(limit)})
			var rows []scanRow
			if err == nil {
				rows, err = recvScan(st)
			}
			trace = append(trace, fmt.Sprintf("Scan(%s) -> %d rows %v", desc, len(rows), err))
			kinds += "S"
			if len(pre)+len(suf)+len(a)+len(b) > 0 || limit > 0 {
				optScans++
			}
			if err != nil {
				fail("request_failed", "Scan failed: "+err.Error())
				break
			}
			checkRows("Scan("+desc+")", rows, model, in, limit)
		case 5: // begin a transaction by handle
			if locked || (roHeld && len(ros) >= 2) {
				break
			}
			ro := r.Chance(40)
			if roHeld {
				ro = true // a second handle while read-only handles are open must be read-only
			}
			resp, err := cl.BeginTransaction(ctx, &pb.BeginTransactionRequest{ReadOnly: ro})
			trace = append(trace, fmt.Sprintf("BeginTransaction(ro=%v) -> %v", ro, err))
			kinds += "T"
			if err != nil {
				fail("request_failed", "BeginTransaction failed: "+err.Error())
				break
			}
			txByHandle++
			t := &svcTx{id: resp.TransactionId, ro: ro, overlay: model.Clone()}
			if ro {
				ros = append(ros, t)
			} else {
				rw = t
			}
		case 6: // operate on an open handle
			var t *svcTx
			if rw != nil {
				t = rw
			} else if len(ros) > 0 {
				t = ros[r.Intn(len(ros))]
			}
			if t == nil {
				break
			}
			// the view of a handle: the committed state (plain writes go straight to storage) overlaid with its own writes
			view := model.Clone()
			for k := range t.overlay.Ever {
				if t.wroteKey(k) {
					if v, ok := t.overlay.M[k]; ok {
						view.Put([]byte(k), v)
					} else {
						view.Del([]byte(k))
					}
				}
			}
			switch r.Pick(30, 30, 15, 20, 5) {
			case 0:
				k := pick()
				resp, err := cl.TxGet(ctx, &pb.TxGetRequest{TransactionId: t.id, Key: k})
				kinds += "g"
				if err != nil {
					fail("request_failed", "TxGet failed: "+err.Error())
					break
				}
				want, live := view.Get(k)
				trace = append(trace, fmt.Sprintf("TxGet(%s,%s) -> found=%v %s", t.id, kv.Q(k), resp.Found, kv.Q(resp.Value)))
				if resp.Found != live || (live && !bytes.Equal(resp.Value, want)) {
					fail("tx_get_mismatch", fmt.Sprintf("TxGet(%s) = found=%v %s; the embedded transaction would return found=%v %s", kv.Q(k), resp.Found, kv.Q(resp.Value), live, kv.Q(want)))
				}
			case 1:
				k, v := pick(), val()
				_, err := cl.TxPut(ctx, &pb.TxPutRequest{TransactionId: t.id, Key: k, Value: v})
				trace = append(trace, fmt.Sprintf("TxPut(%s,%s,%s) -> %v", t.id, kv.Q(k), kv.Q(v), err))
				kinds += "p"
				if t.ro {
					rejected++
					if err == nil {
						fail("invalid_request_accepted", "TxPut on a read-only handle was accepted")
					}
				} else if err != nil {
					fail("request_failed", "TxPut failed: "+err.Error())
				} else {
					t.overlay.Put(k, v)
					t.markWrote(k)
				}
			case 2:
				k := pick()
				_, err := cl.TxDelete(ctx, &pb.TxDeleteRequest{TransactionId: t.id, Key: k})
				trace = append(trace, fmt.Sprintf("TxDelete(%s,%s) -> %v", t.id, kv.Q(k), err))
				kinds += "d"
				if t.ro {
					rejected++
					if err == nil {
						fail("invalid_request_accepted", "TxDelete on a read-only handle was accepted")
					}
				} else if err != nil {
					fail("request_failed", "TxDelete failed: "+err.Error())
				} else {
					t.overlay.Del(k)
					t.markWrote(k)
				}
			case 3:
				pre, suf, a, b, limit, in, desc := genScan()
				st, err := cl.TxScan(ctx, &pb.TxScanRequest{TransactionId: t.id, Prefix: pre, Suffix: suf, StartKey: a, EndKey: b, Limit: int32(limit)})
				var rows []scanRow
				if err == nil {
					rows, err = recvTxScan(st)
				}
				trace = append(trace, fmt.Sprintf("TxScan(%s,%s) -> %d rows %v", t.id, desc, len(rows), err))
				kinds += "s"
				optScans++
				if err != nil {
					fail("request_failed", "TxScan failed: "+err.Error())
					break
				}
				checkRows("TxScan("+desc+")", rows, view, in, limit)
			case 4: // invalid key inside a transaction: rejected; the handle may be released (documented)
				_, err := cl.TxGet(ctx, &pb.TxGetRequest{TransactionId: t.id, Key: badKey()})
				trace = append(trace, fmt.Sprintf("TxGet(%s, invalid key) -> %v", t.id, err))
				kinds += "x"
				rejected++
				if err == nil {
					fail("invalid_request_accepted", "TxGet with an invalid key length was accepted")
					break
				}
				// is the handle still alive?
				_, perr := cl.TxGet(ctx, &pb.TxGetRequest{TransactionId: t.id, Key: []byte("probe")})
				if perr != nil {
					// released: treated as rolled back; its lock must be free
					if t == rw {
						rw = nil
					} else {
						ros = removeTx(ros, t)
					}
					probe("a TxGet with an invalid key that released its transaction")
				}
			}
		case 7: // unknown handle
			_, err := cl.TxGet(ctx, &pb.TxGetRequest{TransactionId: "no-such-transaction", Key: pick()})
			_, err2 := cl.CommitTransaction(ctx, &pb.CommitTransactionRequest{TransactionId: "no-such-transaction"})
			trace = append(trace, fmt.Sprintf("TxGet/Commit(unknown handle) -> %v / %v", err, err2))
			kinds += "u"
			rejected++
			if err == nil || err2 == nil {
				fail("invalid_request_accepted", "an operation on an unknown transaction handle succeeded")
			}
		case 8: // node info
			resp, err := cl.GetNodeInfo(ctx, &pb.GetNodeInfoRequest{})
			kinds += "N"
			if err != nil {
				fail("request_failed", "GetNodeInfo failed: "+err.Error())
			} else if resp.NodeRole != pb.GetNodeInfoResponse_STANDALONE || resp.ReadOnly || resp.PrimaryAddress != "" {
				fail("node_info_mismatch", fmt.Sprintf("standalone node reports role=%v read_only=%v primary=%q", resp.NodeRole, resp.ReadOnly, resp.PrimaryAddress))
			}
		case 9: // boundary sizes that are allowed
			if locked {
				break
			}
			k := bytes.Repeat([]byte("B"), []int{1, 4096}[r.Intn(2)])
			v := []byte("boundary")
			if c.Idx%40 == 7 && step < 10 {
				v = bytes.Repeat([]byte("X"), 10*1024*1024) // exactly the documented maximum
			}
			_, err := cl.Put(ctx, &pb.PutRequest{Key: k, Value: v})
			trace = append(trace, fmt.Sprintf("Put(key of %d bytes, value of %d bytes) -> %v", len(k), len(v), err))
			kinds += "L"
			if err != nil {
				fail("valid_request_rejected", fmt.Sprintf("Put with a key of %d bytes and a value of %d bytes (inside the documented limits) failed: %v", len(k), len(v), err))
				break
			}
			model.Put(k, v)
			keys = append(keys, k)
			if len(v) > 1<<20 {
				_, err := cl.Put(ctx, &pb.PutRequest{Key: k, Value: make([]byte, 10*1024*1024+1)})
				rejected++
				if err == nil {
					fail("invalid_request_accepted", "Put with a value of 10MB+1 was accepted")
				}
				resp, gerr := cl.Get(ctx, &pb.GetRequest{Key: k})
				if gerr != nil || !resp.Found || !bytes.Equal(resp.Value, v) {
					fail("get_mismatch", fmt.Sprintf("a 10MB value does not read back (err %v)", gerr))
				}
			}
		}
		// finish handles now and then
		if len(res.Violations) == 0 && (rw != nil || len(ros) > 0) && r.Chance(22) {
			var t *svcTx
			if rw != nil {
				t = rw
			} else {
				t = ros[r.Intn(len(ros))]
			}
			commit := r.Chance(70)
			var err error
			if commit {
				_, err = cl.CommitTransaction(ctx, &pb.CommitTransactionRequest{TransactionId: t.id})
			} else {
				_, err = cl.RollbackTransaction(ctx, &pb.RollbackTransactionRequest{TransactionId: t.id})
			}
			trace = append(trace, fmt.Sprintf("finish(%s, commit=%v) -> %v", t.id, commit, err))
			kinds += "F"
			if err != nil {
				fail("request_failed", "finishing a transaction failed: "+err.Error())
			} else {
				if commit && !t.ro {
					for k := range t.overlay.Ever {
						if t.wroteKey(k) {
							if v, ok := t.overlay.M[k]; ok {
								model.Put([]byte(k), v)
							} else {
								model.Del([]byte(k))
							}
						}
					}
				}
				if t == rw {
					rw = nil
				} else {
					ros = removeTx(ros, t)
				}
				// the handle is unusable afterwards
				_, e1 := cl.TxGet(ctx, &pb.TxGetRequest{TransactionId: t.id, Key: pick()})
				_, e2 := cl.CommitTransaction(ctx, &pb.CommitTransactionRequest{TransactionId: t.id})
				_, e3 := cl.TxPut(ctx, &pb.TxPutRequest{TransactionId: t.id, Key: pick(), Value: []byte("late")})
				if e1 == nil || e2 == nil || e3 == nil {
					fail("finished_handle_usable", fmt.Sprintf("after commit/rollback the handle still works: TxGet err=%v, Commit err=%v, TxPut err=%v", e1, e2, e3))
				}
			}
		}
		cancel()
	}
	// a scan whose client goes away after a few rows, with more data pending than fits into the stream's
	// flow-control window: the server's send fails in the middle of the scan and must still release the database
	if len(res.Violations) == 0 && !transient && rw == nil && len(ros) == 0 && c.Idx%4 == 1 {
		ctx, cancel := ctxT(60 * time.Second)
		bulk := make([]byte, 6000)
		for i := range bulk {
			bulk[i] = byte('a' + i%26)
		}
		ok := true
		for i := 0; i < 60 && ok; i++ {
			k := []byte(fmt.Sprintf("bulk-%03d", i))
			if _, err := cl.Put(ctx, &pb.PutRequest{Key: k, Value: bulk}); err != nil {
				ok = false
				break
			}
			model.Put(k, bulk)
			keys = append(keys, k)
		}
		if ok {
			sctx, scancel := context.WithCancel(ctx)
			nrows := 0
			if st, err := cl.Scan(sctx, &pb.ScanRequest{Prefix: []byte("bulk-")}); err == nil {
				for want := r.Range(1, 4); nrows < want; nrows++ {
					if _, err := st.Recv(); err != nil {
						break
					}
				}
			}
			scancel()
			time.Sleep(time.Duration(r.Range(10, 80)) * time.Millisecond)
			trace = append(trace, fmt.Sprintf("Scan(prefix=bulk-) abandoned by the client after %d of 60 rows (360KB pending)", nrows))
			kinds += "A"
			res.Count("scans_abandoned_mid_stream", 1)
			probe(fmt.Sprintf("a Scan whose client went away after %d rows", nrows))
		}
		cancel()
	}
	// two (or three) clients ask for a transaction at the same time while a third holds the lock:
	// every client must get its own, independently usable handle
	if len(res.Violations) == 0 && !transient && rw == nil && len(ros) == 0 && c.Idx%4 == 3 {
		ctx, cancel := ctxT(60 * time.Second)
		holder, err := cl.BeginTransaction(ctx, &pb.BeginTransactionRequest{ReadOnly: false})
		if err == nil {
			cl.TxPut(ctx, &pb.TxPutRequest{TransactionId: holder.TransactionId, Key: []byte("held"), Value: []byte("v")})
			nw := r.Range(2, 3)
			ids := make([]string, nw)
			errs := make([]error, nw)
			var cwg sync.WaitGroup
			for i := 0; i < nw; i++ {
				cwg.Add(1)
				go func(i int) {
					defer cwg.Done()
					resp, err := cl.BeginTransaction(ctx, &pb.BeginTransactionRequest{ReadOnly: true})
					if err == nil {
						ids[i] = resp.TransactionId
					}
					errs[i] = err
				}(i)
			}
			time.Sleep(time.Duration(r.Range(20, 80)) * time.Millisecond) // the begins are now waiting for the lock
			_, cerr := cl.CommitTransaction(ctx, &pb.CommitTransactionRequest{TransactionId: holder.TransactionId})
			cwg.Wait()
			trace = append(trace, fmt.Sprintf("concurrent BeginTransaction x%d while a read-write handle was open -> handles %v errors %v (holder commit %v)", nw, ids, errs, cerr))
			kinds += "C"
			if cerr == nil {
				model.Put([]byte("held"), []byte("v"))
				keys = append(keys, []byte("held"))
			}
			seen := map[string]bool{}
			for i, id := range ids {
				if errs[i] != nil {
					fail("request_failed", fmt.Sprintf("a BeginTransaction that waited for the lock failed: %v", errs[i]))
					break
				}
				if seen[id] || id == holder.TransactionId {
					fail("transaction_handle_shared", fmt.Sprintf("two clients that began transactions at the same time received the same handle %s (all handles: %v)", id, ids))
					break
				}
				seen[id] = true
			}
			// every handle works on its own; finishing one leaves the others usable
			for i, id := range ids {
				if len(res.Violations) > 0 {
					break
				}
				g, gerr := cl.TxGet(ctx, &pb.TxGetRequest{TransactionId: id, Key: []byte("held")})
				if gerr != nil || (cerr == nil && (!g.Found || string(g.Value) != "v")) {
					fail("tx_get_mismatch", fmt.Sprintf("handle %s (client %d of %d concurrent begins) is not usable: TxGet err=%v resp=%v", id, i, nw, gerr, g))
					break
				}
				if _, ferr := cl.RollbackTransaction(ctx, &pb.RollbackTransactionRequest{TransactionId: id}); ferr != nil {
					fail("request_failed", fmt.Sprintf("finishing handle %s failed: %v", id, ferr))
				}
			}
			txByHandle += nw
			if len(res.Violations) == 0 {
				probe("transactions begun concurrently by several clients")
			}
		}
		cancel()
	}
	// finish what is open, then compare the whole database
	ctx, cancel := ctxT(60 * time.Second)
	defer cancel()
	if rw != nil {
		cl.RollbackTransaction(ctx, &pb.RollbackTransactionRequest{TransactionId: rw.id})
	}
	for _, t := range ros {
		cl.RollbackTransaction(ctx, &pb.RollbackTransactionRequest{TransactionId: t.id})
	}
	rw, ros = nil, nil
	if len(res.Violations) == 0 {
		st, err := cl.Scan(ctx, &pb.ScanRequest{})
		var rows []scanRow
		if err == nil {
			rows, err = recvScan(st)
		}
		if err != nil {
			fail("request_failed", "final Scan failed: "+err.Error())
		} else {
			checkRows("final full Scan", rows, model, func([]byte) bool { return true }, 0)
		}
		var ks2 []string
		for k := range model.Ever {
			ks2 = append(ks2, k)
		}
		sort.Strings(ks2)
		for _, k := range ks2 {
			resp, err := cl.Get(ctx, &pb.GetRequest{Key: []byte(k)})
			want, live := model.Get([]byte(k))
			if err != nil || resp.Found != live || (live && !bytes.Equal(resp.Value, want)) {
				fail("get_mismatch", fmt.Sprintf("final Get(%s) = %v found=%v; model says found=%v %s", kv.Q([]byte(k)), err, resp != nil && resp.Found, live, kv.Q(want)))
				break
			}
		}
		probe("the request sequence")
	}
	res.Count("requests", int64(len(trace)))
	res.Count("rejected_requests", int64(rejected))
	res.Count("transactions_by_handle", int64(txByHandle))
	res.Count("scans_with_options", int64(optScans))
	res.Sig = core.Sig(kinds)
	res.Nontrivial = rejected > 0 && txByHandle > 0 && optScans > 0
	if c.Idx < 2 {
		t := trace
		if len(t) > 25 {
			t = t[:25]
		}
		for i := range t {
			if len(t[i]) > 160 {
				t[i] = t[i][:160] + "..."
			}
		}
		res.Sample = map[string]interface{}{"case": c.Idx, "config": cfg, "requests": len(trace), "request_head": t}
	}
	_ = strings.Join
}

func (t *svcTx) markWrote(k []byte) {
	t.wrote = true
	t.overlay.Ever["\x00w:"+string(k)] = true
}
func (t *svcTx) wroteKey(k string) bool {
	if strings.HasPrefix(k, "\x00w:") {
		return false
	}
	return t.overlay.Ever["\x00w:"+k]
}

func removeTx(l []*svcTx, t *svcTx) []*svcTx {
	var out []*svcTx
	for _, x := range l {
		if x != t {
			out = append(out, x)
		}
	}
	return out
}
