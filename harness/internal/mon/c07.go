package mon

import (
	"bytes"
	"context"
	"fmt"
	"os"
	"path/filepath"
	"reflect"
	"sync"
	"sync/atomic"
	"time"

	"github.com/KevoDB/kevo/pkg/common/iterator"
	"github.com/KevoDB/kevo/pkg/config"
	"github.com/KevoDB/kevo/pkg/engine"
	"github.com/KevoDB/kevo/pkg/engine/interfaces"
	"github.com/KevoDB/kevo/pkg/transaction"
	"github.com/KevoDB/kevo/pkg/verifhook"
	"github.com/KevoDB/kevo/pkg/wal"

	"verif/internal/core"
	"verif/internal/kv"
)

func init() {
	core.Register(&core.Monitor{
		ID:    "C07",
		Level: "exploration",
		Race:  true,
		Rule: "binary built with -race (which also enables checkptr). 8-24 goroutines call every public entry point of the engine facade - the method set is taken by reflection from " +
			"*EngineFacade so that new entry points are exercised with synthesised arguments (Close and SetReadOnly excluded) - plus read-only and read-write transactions with iterators, the " +
			"transaction registry (begin with short deadlines, get, remove, stale sweep, connection cleanup), batch writes, explicit flush, compaction, range compaction, statistics and the log's " +
			"sequence/retention entry points, on an engine with 1 byte .. 4KB memtables and a 1s compaction interval, with PRNG yields at the hook sites. Every 7th case instead keeps an unreadable table file in the table directory during two background compaction ticks (failing cycles), removes it, and requires TriggerCompaction, CompactRange, FlushImMemTables and Close to return. Every 14th case reopens a database whose log rebuilds into several memtables (stored memtable size lowered between the two opens), so that the storage manager's 10-second maintenance tick finds immutable tables nobody signalled, runs readers across that tick and requires GetStats, Put, Get, FlushImMemTables, the readers and Close to return afterwards. Race reports are read from the detector's " +
			"log after every case and de-duplicated by the sorted pair of the first kevo frames; any report, fatal error, panic or non-zero worker exit is a violation with the report as witness; " +
			"a case that does not finish within 120s is a hang violation with the goroutine dump as witness. distinct = hash(config, goroutines, seed); non-trivial = >= 1 flush and >= 1 " +
			"compaction ran while clients were active and every reflected method was called",
		Assumptions: []string{"Close concurrent with other calls is out of scope", "a goroutine holds at most one transaction at a time and does not start another lock-taking call while it holds one"},
		NumCases: func(tier string) int {
			if tier == "thorough" {
				return 400
			}
			return 28
		},
		Run:         runC07,
		CaseTimeout: 120 * time.Second,
		HangClass:   "hang",
		Workers:     8,
		Guard: func(a *core.Aggregate) string {
			if a.Counters["flushes"] == 0 || a.Counters["calls"] == 0 {
				return "no flush happened under the concurrent workload"
			}
			return ""
		},
	})
}

func drainIt(it iterator.Iterator, max int) {
	n := 0
	for it.SeekToFirst(); it.Valid() && n < max; it.Next() {
		_ = it.Key()
		_ = it.Value()
		_ = it.IsTombstone()
		n++
	}
}

// c07FailedCycle: background maintenance that *fails* for a while (a table file that cannot be read sits in the
// table directory during two compaction ticks, e.g. a file still being copied in) must not take anything with
// it: every later call returns, including the explicit compaction calls and Close.
func c07FailedCycle(c *core.Ctx, res *core.Result) {
	r := c.Rand
	cfg := kv.Cfg{MemTableSize: []int64{1024, 4096}[r.Intn(2)], MaxMemTables: r.Range(1, 4), SyncMode: 0, CompactSecs: 1}
	dir := c.Dir + "/db"
	eng, err := kv.Open(dir, cfg)
	if err != nil {
		res.Violate("open_error", err.Error(), nil)
		return
	}
	closed := false
	defer func() {
		if !closed {
			eng.Close()
		}
	}()
	var stop atomic.Bool
	var wg sync.WaitGroup
	var calls atomic.Int64
	for g := 0; g < 4; g++ {
		wg.Add(1)
		rr := r.Derive(uint64(g + 1))
		go func() {
			defer wg.Done()
			for !stop.Load() {
				k := []byte(fmt.Sprintf("f%03d", rr.Intn(60)))
				if rr.Chance(60) {
					eng.Put(k, bytes.Repeat([]byte{'x'}, rr.Range(10, 300)))
				} else {
					eng.Get(k)
				}
				calls.Add(1)
				time.Sleep(200 * time.Microsecond)
			}
		}()
	}
	time.Sleep(300 * time.Millisecond)
	eng.FlushImMemTables()
	junk := filepath.Join(dir, "sst", fmt.Sprintf("%d_%06d_%020d.sst", 0, 999, time.Now().UnixNano()))
	os.WriteFile(junk, []byte("not a table file"), 0644)
	time.Sleep(2300 * time.Millisecond) // two ticks of the background compaction see it
	os.Remove(junk)
	feat := map[string]string{"kind": "failed_background_cycle"}
	step := func(name string, f func()) bool {
		done := make(chan struct{})
		go func() { f(); close(done) }()
		select {
		case <-done:
			return true
		case <-time.After(20 * time.Second):
			res.Violate("hang", fmt.Sprintf("after two background compaction cycles that failed (an unreadable table file was in the table directory for 2.3s and has been removed) %s did not return within 20s\n%s", name, blockedKevoStacks()), feat)
			return false
		}
	}
	ok := step("TriggerCompaction", func() { eng.TriggerCompaction() }) &&
		step("CompactRange", func() { eng.CompactRange([]byte("f000"), []byte("f999")) }) &&
		step("FlushImMemTables", func() { eng.FlushImMemTables() })
	stop.Store(true)
	wg.Wait()
	if ok && step("Close", func() { eng.Close() }) {
		closed = true
	}
	res.Count("failed_cycle_scenarios", 1)
	res.Count("calls", calls.Load())
	res.Count("flushes", 1)
	res.Sig = core.Sig("failedcycle", cfg.String())
	res.Nontrivial = true
}

// c07TickBacklog: the storage manager's 10-second maintenance tick is the only thing that flushes immutable
// memtables nobody signalled - those rebuilt from the log at start-up. A database whose log holds more than
// one memtable of data (written with a large memtable, reopened after the stored memtable size was lowered
// the documented way) is opened, readers run across the first tick, and afterwards every call must return.
func c07TickBacklog(c *core.Ctx, res *core.Result) {
	r := c.Rand
	dir := c.Dir + "/db"
	cfg := kv.Cfg{MemTableSize: 1 << 20, MaxMemTables: r.Range(2, 4), SyncMode: 0, CompactSecs: []int64{1, 3600}[r.Intn(2)]}
	eng, err := kv.Open(dir, cfg)
	if err != nil {
		res.Violate("open_error", err.Error(), nil)
		return
	}
	n := r.Range(60, 140)
	for i := 0; i < n; i++ {
		eng.Put([]byte(fmt.Sprintf("t%03d", i)), bytes.Repeat([]byte{'y'}, r.Range(200, 400)))
	}
	eng.Close()
	sc, err := config.LoadConfigFromManifest(dir)
	if err != nil {
		res.Violate("open_error", "LoadConfigFromManifest: "+err.Error(), nil)
		return
	}
	small := []int64{2048, 4096, 8192}[r.Intn(3)]
	sc.Update(func(c2 *config.Config) { c2.MemTableSize = small })
	if err := sc.SaveManifest(dir); err != nil {
		res.Violate("open_error", "SaveManifest: "+err.Error(), nil)
		return
	}
	t0 := time.Now()
	eng, err = engine.NewEngineFacade(dir)
	if err != nil {
		res.Violate("open_error", "reopen: "+err.Error(), nil)
		return
	}
	backlog, _ := eng.GetStats()["storage_immutable_memtable_count"].(int)
	feat := map[string]string{"kind": "tick_backlog"}
	hung := false
	step := func(name string, f func()) bool {
		done := make(chan struct{})
		go func() { f(); close(done) }()
		select {
		case <-done:
			return true
		case <-time.After(20 * time.Second):
			hung = true
			res.Violate("hang", fmt.Sprintf("database reopened with %d immutable memtables rebuilt from the log (nothing signals a flush for those; the storage manager's 10s maintenance tick finds them): %.1fs after the open %s did not return within 20s\n%s", backlog, time.Since(t0).Seconds()-20, name, blockedKevoStacks()), feat)
			return false
		}
	}
	var stop atomic.Bool
	var calls atomic.Int64
	readersDone := make(chan struct{})
	var wg sync.WaitGroup
	for g := 0; g < 4; g++ {
		wg.Add(1)
		rr := r.Derive(uint64(g + 1))
		go func() {
			defer wg.Done()
			for !stop.Load() {
				switch rr.Intn(3) {
				case 0:
					eng.Get([]byte(fmt.Sprintf("t%03d", rr.Intn(n))))
				case 1:
					eng.GetStats()
				case 2:
					if it, err := eng.GetIterator(); err == nil {
						drainIt(it, 20)
					}
				}
				calls.Add(1)
				time.Sleep(500 * time.Microsecond)
			}
		}()
	}
	go func() { wg.Wait(); close(readersDone) }()
	// only reads until the first tick has been served: a write could signal a flush that empties the backlog first
	for time.Since(t0) < 11500*time.Millisecond {
		time.Sleep(50 * time.Millisecond)
	}
	after := -1
	ok := step("GetStats", func() { after, _ = eng.GetStats()["storage_immutable_memtable_count"].(int) }) &&
		step("Put", func() { eng.Put([]byte("t-after-tick"), []byte("z")) }) &&
		step("Get", func() { eng.Get([]byte("t000")) }) &&
		step("FlushImMemTables", func() { eng.FlushImMemTables() })
	stop.Store(true)
	if ok {
		ok = step("the reader goroutines (Get/GetStats/GetIterator)", func() { <-readersDone })
	}
	if ok {
		step("Close", func() { eng.Close() })
	}
	if !hung {
		res.Count("tick_backlog_scenarios", 1)
		res.Count("tick_backlog_tables_at_open", int64(backlog))
		if after == 0 && backlog > 0 {
			res.Count("tick_backlog_flushed_by_tick", 1)
			res.Count("flushes", 1)
		}
	}
	res.Count("calls", calls.Load())
	res.Sig = core.Sig("tickbacklog", cfg.String(), fmt.Sprint(small, n))
	res.Nontrivial = backlog > 0
}

func runC07(c *core.Ctx, res *core.Result) {
	if c.Idx%7 == 6 {
		c07FailedCycle(c, res)
		return
	}
	if c.Idx%14 == 3 {
		c07TickBacklog(c, res)
		return
	}
	r := c.Rand
	cfg := kv.Cfg{MemTableSize: []int64{1, 200, 1024, 4096}[r.Intn(4)], MaxMemTables: r.Range(1, 4), SyncMode: []int{0, 0, 1, 2}[r.Intn(4)], CompactSecs: 1}
	eng, err := kv.Open(c.Dir+"/db", cfg)
	if err != nil {
		res.Violate("open_error", err.Error(), nil)
		return
	}
	defer eng.Close()
	ypm := []int64{0, 30, 150}[r.Intn(3)]
	verifhook.SetYield(r.U64(), ypm)
	defer verifhook.SetYield(0, 0)
	var flushes, compactions atomic.Int64
	verifhook.Set(func(site string) {
		switch site {
		case "storage.flushtable.after_finish":
			flushes.Add(1)
		case "compaction.exec.done":
			compactions.Add(1)
		}
	})
	defer verifhook.Set(nil)
	reg := transaction.NewRegistryWithTTL(2*time.Second, 300*time.Millisecond, 75, 90)
	G := r.Range(8, 24)
	per := r.Range(60, 160)
	if cfg.SyncMode == 2 {
		per = r.Range(30, 70)
	}
	nk := r.Range(4, 40)
	key := func(rr *core.Rand) []byte { return []byte(fmt.Sprintf("r%03d", rr.Intn(nk))) }
	var calls atomic.Int64
	called := sync.Map{}
	// reflected method set of the facade
	et := reflect.TypeOf(eng)
	var methods []reflect.Method
	for i := 0; i < et.NumMethod(); i++ {
		m := et.Method(i)
		if m.Name == "Close" || m.Name == "SetReadOnly" {
			continue
		}
		methods = append(methods, m)
	}
	txType := reflect.TypeOf((*interfaces.Transaction)(nil)).Elem()
	itType := reflect.TypeOf((*iterator.Iterator)(nil)).Elem()
	synth := func(rr *core.Rand, t reflect.Type) reflect.Value {
		switch {
		case t == reflect.TypeOf([]byte(nil)):
			return reflect.ValueOf(key(rr))
		case t.Kind() == reflect.Bool:
			return reflect.ValueOf(rr.Bool())
		case t == reflect.TypeOf([]*wal.Entry(nil)):
			var ents []*wal.Entry
			for i, n := 0, rr.Range(1, 5); i < n; i++ {
				if rr.Chance(30) {
					ents = append(ents, &wal.Entry{Type: wal.OpTypeDelete, Key: key(rr)})
				} else {
					ents = append(ents, &wal.Entry{Type: wal.OpTypePut, Key: key(rr), Value: []byte("batch")})
				}
			}
			return reflect.ValueOf(ents)
		}
		return reflect.Zero(t)
	}
	useTx := func(rr *core.Rand, tx interfaces.Transaction) {
		for i, n := 0, rr.Range(1, 6); i < n; i++ {
			switch rr.Intn(5) {
			case 0:
				tx.Get(key(rr))
			case 1:
				tx.Put(key(rr), []byte("txv"))
			case 2:
				tx.Delete(key(rr))
			case 3:
				drainIt(tx.NewIterator(), 200)
			case 4:
				a, b := key(rr), key(rr)
				drainIt(tx.NewRangeIterator(a, b), 200)
			}
		}
		if rr.Chance(70) {
			tx.Commit()
		} else {
			tx.Rollback()
		}
		if rr.Chance(20) {
			tx.Commit() // double finish
			tx.Get(key(rr))
		}
	}
	var wg sync.WaitGroup
	for g := 0; g < G; g++ {
		wg.Add(1)
		rr := r.Derive(uint64(g + 1))
		go func(g int) {
			defer wg.Done()
			for i := 0; i < per; i++ {
				calls.Add(1)
				switch rr.Pick(50, 10, 4, 3, 3) {
				case 0: // reflected facade method
					m := methods[rr.Intn(len(methods))]
					// heavy maintenance less often
					if (m.Name == "TriggerCompaction" || m.Name == "CompactRange" || m.Name == "FlushImMemTables") && !rr.Chance(25) {
						m, _ = et.MethodByName([]string{"Put", "Get", "Delete", "IsDeleted"}[rr.Intn(4)])
					}
					called.Store(m.Name, true)
					args := []reflect.Value{reflect.ValueOf(eng)}
					for a := 1; a < m.Type.NumIn(); a++ {
						args = append(args, synth(rr, m.Type.In(a)))
					}
					outs := m.Func.Call(args)
					for _, o := range outs {
						if !o.IsValid() || (o.Kind() == reflect.Interface && o.IsNil()) || (o.Kind() == reflect.Ptr && o.IsNil()) {
							continue
						}
						if o.Type().Implements(txType) {
							useTx(rr, o.Interface().(interfaces.Transaction))
						} else if o.Type().Implements(itType) {
							drainIt(o.Interface().(iterator.Iterator), 300)
						} else if w, ok := o.Interface().(*wal.WAL); ok && w != nil {
							w.GetNextSequence()
						}
					}
				case 1: // registry: begin (sometimes with a deadline that expires while waiting), use, finish
					ctx := context.Background()
					var cancel context.CancelFunc = func() {}
					if rr.Chance(40) {
						ctx, cancel = context.WithTimeout(ctx, time.Duration(rr.Range(1, 30))*time.Millisecond)
					}
					ctx = context.WithValue(ctx, "peer", fmt.Sprintf("conn-%d", g))
					id, err := reg.Begin(ctx, eng, rr.Chance(50))
					cancel()
					if err == nil {
						if tx, ok := reg.Get(id); ok {
							tx.Get(key(rr))
							if !tx.IsReadOnly() {
								tx.Put(key(rr), []byte("regv"))
							}
							if rr.Chance(85) {
								if rr.Bool() {
									tx.Commit()
								} else {
									tx.Rollback()
								}
								reg.Remove(id)
							} else {
								// abandoned: the sweep or the connection cleanup has to end it
								if rr.Bool() {
									reg.CleanupConnection(fmt.Sprintf("conn-%d", g))
								} else {
									time.Sleep(350 * time.Millisecond)
									if ri, ok := reg.(*transaction.RegistryImpl); ok {
										ri.CleanupStaleTransactions()
									}
								}
							}
						}
					}
				case 2:
					if ri, ok := reg.(*transaction.RegistryImpl); ok {
						ri.CleanupStaleTransactions()
					}
				case 3:
					eng.GetTransactionManager().GetTransactionStats()
					eng.GetStats()
				case 4:
					if w := eng.GetWAL(); w != nil {
						w.GetNextSequence()
						if rr.Chance(30) {
							w.GetEntriesFrom(uint64(rr.Intn(50)))
						}
					}
				}
			}
		}(g)
	}
	wg.Wait()
	reg.GracefulShutdown(context.Background())
	// the database must still be usable: a fresh read-write transaction begins and commits
	done := make(chan error, 1)
	go func() {
		tx, err := eng.BeginTransaction(false)
		if err != nil {
			done <- err
			return
		}
		tx.Put([]byte("probe"), []byte("x"))
		done <- tx.Commit()
	}()
	select {
	case err := <-done:
		if err != nil {
			res.Violate("post_stress_probe_failed", "a fresh transaction after the stress failed: "+err.Error(), nil)
		}
	case <-time.After(20 * time.Second):
		res.Violate("hang", "after the stress workload a fresh read-write transaction could not begin within 20s: the database lock was leaked", map[string]string{"hang": "probe"})
	}
	res.Count("calls", calls.Load())
	res.Count("flushes", flushes.Load())
	res.Count("compactions", compactions.Load())
	n := 0
	called.Range(func(k, v interface{}) bool {
		res.AddSet("facade_methods_called", k.(string))
		n++
		return true
	})
	res.Sig = core.Sig(cfg.String(), G, per, ypm, c.Seed)
	res.Nontrivial = flushes.Load() > 0 && compactions.Load() > 0
	if c.Idx < 2 {
		var ms []string
		for _, m := range methods {
			ms = append(ms, m.Name)
		}
		res.Sample = map[string]interface{}{"case": c.Idx, "config": cfg, "goroutines": G, "calls_per_goroutine": per, "yield_permille": ypm, "reflected_methods": ms,
			"flushes": flushes.Load(), "compactions": compactions.Load()}
	}
	_ = engine.ErrEngineClosed
}
