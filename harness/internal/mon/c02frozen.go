package mon

import (
	"fmt"
	"path/filepath"
	"sort"
	"strings"
	"sync"
	"sync/atomic"
	"time"

	"github.com/KevoDB/kevo/pkg/verifhook"
	"github.com/KevoDB/kevo/pkg/wal"

	"verif/internal/core"
	"verif/internal/kv"
)

// Sites that only maintenance goroutines reach (the foreground program below issues writes and reads only).
var frozenSitePrefixes = []string{"storage.rotate.", "storage.flush.", "storage.flushtable.", "sstable.", "compaction.", "wal.close."}

// c02Frozen explores process-death instants that the kill enumeration only reaches by luck: a maintenance
// goroutine (background flush, log rotation, table write, compaction) is stopped at the k-th hit of a hook
// site while the foreground goes on writing for a few more units. At that moment the database directory is
// copied - exactly what a process death at that instant leaves behind, because every goroutine is either
// parked at a hook point, waiting for a lock, or idle (no write(2) is in flight). The copy is opened and must
// be a prefix of the issued units (with synchronous logging: containing every acknowledged one).
func c02Frozen(c *core.Ctx, res *core.Result) {
	r := c.Rand
	cfg := kv.Cfg{
		MemTableSize: []int64{1, 300, 1024, 4096, 64 * 1024}[r.Pick(1, 3, 3, 2, 1)],
		MaxMemTables: []int{1, 2, 4}[r.Intn(3)],
		SyncMode:     (c.Idx / 8) % 3,
		CompactSecs:  3600,
	}
	if cfg.SyncMode == 1 {
		cfg.SyncBytes = []int64{1, 4096, 1 << 20}[r.Intn(3)]
	}
	dir := filepath.Join(c.Dir, "db")
	eng, err := kv.Open(dir, cfg)
	if err != nil {
		res.Violate("open_error", err.Error(), nil)
		return
	}
	closed := false
	defer func() {
		verifhook.Set(nil)
		if !closed {
			eng.Close()
		}
	}()
	o := kv.GenOpts{NOps: r.Range(60, 160), NKeys: r.Range(3, 16), BigValues: r.Chance(40), Tx: true, Batch: true, BigTxPct: 15, TxWeight: 14}
	ks := kv.GenKeySpace(r, o.NKeys)
	var units []kv.Op
	for _, op := range kv.GenProgram(r, ks, fmt.Sprintf("c%d", c.Idx), o) {
		if kv.IsUnit(op) {
			units = append(units, op)
		}
	}
	_, keySet := unitsOf(units)
	var keys []string
	for k := range keySet {
		keys = append(keys, k)
	}
	sort.Strings(keys)

	// the freeze: armed for one (site, k); the goroutine that makes the k-th hit parks until released
	var armed atomic.Pointer[string]
	var hitsLeft atomic.Int64
	var frozen atomic.Bool
	var frozenAt atomic.Pointer[string]
	release := make(chan struct{})
	var relMu sync.Mutex
	seen := map[string]int{}
	var seenMu sync.Mutex
	verifhook.Set(func(site string) {
		isM := false
		for _, p := range frozenSitePrefixes {
			if strings.HasPrefix(site, p) {
				isM = true
				break
			}
		}
		if !isM {
			return
		}
		seenMu.Lock()
		seen[site]++
		seenMu.Unlock()
		a := armed.Load()
		if a == nil || (*a != site && *a != "*") {
			return
		}
		if hitsLeft.Add(-1) != 0 {
			return
		}
		armed.Store(nil)
		s := site
		frozenAt.Store(&s)
		relMu.Lock()
		ch := release
		relMu.Unlock()
		frozen.Store(true)
		<-ch
	})
	// maintenance besides the engine's own background flush
	var mstop atomic.Bool
	var mwg sync.WaitGroup
	mwg.Add(1)
	mrr := r.Derive(99)
	go func() {
		defer mwg.Done()
		for !mstop.Load() {
			switch mrr.Intn(3) {
			case 0:
				eng.FlushImMemTables()
			case 1:
				eng.TriggerCompaction()
			case 2:
				a, b := ks.Pick(mrr), ks.Pick(mrr)
				if string(a) > string(b) {
					a, b = b, a
				}
				eng.CompactRange(a, b)
			}
			time.Sleep(time.Duration(mrr.Range(200, 3000)) * time.Microsecond)
		}
	}()
	stopMaint := func() {
		mstop.Store(true)
		armed.Store(nil)
		if frozen.Load() {
			relMu.Lock()
			close(release)
			release = make(chan struct{})
			relMu.Unlock()
			frozen.Store(false)
		}
		mwg.Wait()
	}

	execUnit := func(op kv.Op) error {
		switch op.Kind {
		case "put":
			return eng.Put(op.Key, op.Val)
		case "del":
			return eng.Delete(op.Key)
		case "batch":
			var ents []*wal.Entry
			for _, x := range op.Sub {
				if x.Kind == "put" {
					ents = append(ents, &wal.Entry{Type: wal.OpTypePut, Key: x.Key, Value: x.Val})
				} else {
					ents = append(ents, &wal.Entry{Type: wal.OpTypeDelete, Key: x.Key})
				}
			}
			return eng.ApplyBatch(ents)
		case "tx":
			tx, e := eng.BeginTransaction(false)
			if e != nil {
				return e
			}
			for _, x := range op.Sub {
				switch x.Kind {
				case "put":
					tx.Put(x.Key, x.Val)
				case "del":
					tx.Delete(x.Key)
				}
			}
			return tx.Commit()
		}
		return nil
	}
	arm := func() {
		site := "*"
		seenMu.Lock()
		var cand []string
		for s := range seen {
			cand = append(cand, s)
		}
		seenMu.Unlock()
		sort.Strings(cand)
		if len(cand) > 0 && r.Chance(85) {
			site = cand[r.Intn(len(cand))]
			if r.Chance(40) {
				// the log hand-over is where two files are open at once: look there more often
				var rot []string
				for _, s := range cand {
					if strings.HasPrefix(s, "storage.rotate.") || strings.HasPrefix(s, "wal.close.") {
						rot = append(rot, s)
					}
				}
				if len(rot) > 0 {
					site = rot[r.Intn(len(rot))]
				}
			}
		}
		hitsLeft.Store(int64(r.Range(1, 4)))
		armed.Store(&site)
	}
	errored := map[int]string{}
	acked := 0 // units [0, acked) have returned
	snapshots := 0
	extra := -1 // units still to run after the freeze was noticed; -1 = not frozen
	maxSnaps := 3
	if c.Thorough {
		maxSnaps = 6
	}
	nbig := 0
	arm()
	for i := 0; i < len(units) && len(res.Violations) == 0; i++ {
		if extra < 0 && frozen.Load() {
			extra = r.Range(0, 6)
			if r.Chance(60) {
				// make sure something written after the freeze reaches the file even without syncing: a value
				// larger than the log's write buffer is handed to the file directly
				nbig++
				k := []byte(fmt.Sprintf("zz-big-%d", nbig))
				big := kv.Op{Kind: "put", Key: k, Val: []byte(fmt.Sprintf("c%d/big%d|", c.Idx, nbig))}
				for len(big.Val) < 70000 {
					big.Val = append(big.Val, byte('a'+len(big.Val)%26))
				}
				at := min(i+extra, len(units))
				units = append(units[:at], append([]kv.Op{big}, units[at:]...)...)
				keys = append(keys, string(k))
				sort.Strings(keys)
			}
		}
		pending := false
		done := make(chan error, 1)
		go func(op kv.Op) { done <- execUnit(op) }(units[i])
		select {
		case e := <-done:
			if e != nil {
				errored[i] = e.Error()
			}
			acked = i + 1
		case <-time.After(3 * time.Second):
			// the unit waits for something the parked goroutine holds
			pending = true
			if !frozen.Load() {
				res.Inconclusive = fmt.Sprintf("unit %d did not return within 3s although no goroutine is parked", i)
				stopMaint()
				return
			}
			res.Count("units_blocked_by_parked_goroutine", 1)
		}
		if extra > 0 && !pending {
			extra--
			continue
		}
		if extra == 0 || pending {
			// ---- the instant: copy the directory, judge the copy
			site := *frozenAt.Load()
			snapshots++
			res.Count("snapshots_with_parked_goroutine", 1)
			res.AddSet("sites_parked", site)
			issued := i + 1
			sdir := filepath.Join(c.Dir, fmt.Sprintf("snap%d", snapshots))
			if err := cloneDB(dir, sdir); err != nil {
				res.Inconclusive = "copy failed: " + err.Error()
				stopMaint()
				return
			}
			feat := map[string]string{"kind": "parked_goroutine", "parked_at": site, "sync": fmt.Sprint(cfg.SyncMode)}
			what := fmt.Sprintf("config %s: a maintenance goroutine was parked at %s, the foreground went on to unit %d (%d returned, the last one %s); directory copied at that instant", cfg, site, i, acked,
				map[bool]string{true: "is waiting for the parked goroutine", false: "returned"}[pending])
			e2, err := kv.Open(sdir, cfg)
			if err != nil {
				res.Violate("recovery_open_failed", fmt.Sprintf("%s: the copy does not open: %v", what, err), feat)
			} else {
				st, serr := kv.StateOf(e2.Get, keys)
				e2.Close()
				if serr != nil {
					res.Violate("recovered_state_unreadable", what+": "+serr.Error(), feat)
				} else {
					lo := 0
					if cfg.SyncMode == 2 {
						lo = acked
					}
					matches, _, closest, diff := kv.MatchPrefix(kv.NewModel(), units[:issued], errored, st, keys, 0, issued)
					switch {
					case len(matches) == 0:
						from := max(0, closest-3)
						var sb strings.Builder
						for u := from; u < min(issued, closest+3); u++ {
							fmt.Fprintf(&sb, "unit %d: %s\n", u, units[u].String())
						}
						res.Violate("recovered_state_not_a_prefix", fmt.Sprintf("%s: the recovered state matches no prefix of the %d issued units; closest prefix %d differs at: %s\nunits around it:\n%s", what, issued, closest, diff, sb.String()), feat)
					case matches[len(matches)-1] < lo:
						res.Violate("acknowledged_write_lost", fmt.Sprintf("%s: synchronous logging, %d units had returned, the recovered state is the prefix of length %d", what, acked, matches[len(matches)-1]), feat)
					}
				}
			}
			// release, wait for a blocked unit, go on
			relMu.Lock()
			close(release)
			release = make(chan struct{})
			relMu.Unlock()
			frozen.Store(false)
			extra = -1
			if pending {
				select {
				case e := <-done:
					if e != nil {
						errored[i] = e.Error()
					}
					acked = i + 1
				case <-time.After(30 * time.Second):
					res.Violate("hang", fmt.Sprintf("%s: after the parked goroutine was released unit %d still did not return within 30s", what, i), feat)
					return
				}
			}
			if snapshots < maxSnaps {
				arm()
			}
		}
	}
	stopMaint()
	verifhook.Set(nil)
	if len(res.Violations) > 0 {
		return
	}
	// clean close and reopen: everything that returned without error is there
	eng.Close()
	closed = true
	e3, err := kv.Open(dir, cfg)
	if err != nil {
		res.Violate("recovery_open_failed", "reopen after clean close: "+err.Error(), nil)
		return
	}
	st, serr := kv.StateOf(e3.Get, keys)
	e3.Close()
	if serr == nil {
		if m, _, closest, diff := kv.MatchPrefix(kv.NewModel(), units, errored, st, keys, len(units), len(units)); len(m) == 0 {
			res.Violate("clean_reopen_mismatch", fmt.Sprintf("config %s: after the run with parked goroutines, a clean close and a reopen the state is not the state of all %d units (closest prefix %d): %s", cfg, len(units), closest, diff), map[string]string{"kind": "parked_goroutine"})
			return
		}
	}
	res.Count("units_issued", int64(len(units)))
	res.Count("unit_errors", int64(len(errored)))
	res.Sig = core.Sig("frozen", cfg.String(), snapshots, len(units))
	res.Nontrivial = snapshots > 0
}
