package mon

import (
	"fmt"
	"path/filepath"
	"sort"
	"strings"
	"sync"
	"sync/atomic"
	"time"

	"github.com/KevoDB/kevo/pkg/verifhook"
	"github.com/KevoDB/kevo/pkg/wal"

	"verif/internal/core"
	"verif/internal/kv"
)

// Sites that only maintenance goroutines reach (the foreground program below issues writes and reads only).
var frozenSitePrefixes = []string{"storage.rotate.", "storage.flush.", "storage.flushtable.", "sstable.", "compaction.", "wal.close."}

// Sites only the writing (foreground) goroutine reaches. Parking it there while maintenance goes on is the
// mirror image: a write that is half-way (in the log but not in memory, between two inserts of a batch, ...)
// at the instant the directory is copied, with flushes, rotations and compactions completing meanwhile.
var foregroundSitePrefixes = []string{"storage.put.", "storage.delete.", "storage.batch.", "storage.write.", "storage.schedflush.", "tx.commit.", "wal.append.", "wal.batch.", "wal.frag.", "wal.sync."}

// c02Frozen explores process-death instants that the kill enumeration only reaches by luck: a maintenance
// goroutine (background flush, log rotation, table write, compaction) is stopped at the k-th hit of a hook
// site while the foreground goes on writing for a few more units. At that moment the database directory is
// copied - exactly what a process death at that instant leaves behind, because every goroutine is either
// parked at a hook point, waiting for a lock, or idle (no write(2) is in flight). The copy is opened and must
// be a prefix of the issued units (with synchronous logging: containing every acknowledged one).
func c02Frozen(c *core.Ctx, res *core.Result) {
	r := c.Rand
	cfg := kv.Cfg{
		MemTableSize: []int64{1, 300, 1024, 4096, 64 * 1024}[r.Pick(1, 3, 3, 2, 1)],
		MaxMemTables: []int{1, 2, 4}[r.Intn(3)],
		SyncMode:     (c.Idx / 8) % 3,
		CompactSecs:  3600,
	}
	if cfg.SyncMode == 1 {
		cfg.SyncBytes = []int64{1, 4096, 1 << 20}[r.Intn(3)]
	}
	dir := filepath.Join(c.Dir, "db")
	eng, err := kv.Open(dir, cfg)
	if err != nil {
		res.Violate("open_error", err.Error(), nil)
		return
	}
	closed := false
	defer func() {
		verifhook.Set(nil)
		if !closed {
			eng.Close()
		}
	}()
	o := kv.GenOpts{NOps: r.Range(60, 160), NKeys: r.Range(3, 16), BigValues: r.Chance(40), Tx: true, Batch: true, BigTxPct: 15, TxWeight: 14}
	ks := kv.GenKeySpace(r, o.NKeys)
	var units []kv.Op
	for _, op := range kv.GenProgram(r, ks, fmt.Sprintf("c%d", c.Idx), o) {
		if kv.IsUnit(op) {
			units = append(units, op)
		}
	}
	_, keySet := unitsOf(units)
	var keys []string
	for k := range keySet {
		keys = append(keys, k)
	}
	sort.Strings(keys)

	// the freeze: armed for one (site, k); the goroutine that makes the k-th hit parks until released
	var armed atomic.Pointer[string]
	var hitsLeft atomic.Int64
	var frozen atomic.Bool
	var frozenAt atomic.Pointer[string]
	release := make(chan struct{})
	var relMu sync.Mutex
	seen, seenFg := map[string]int{}, map[string]int{}
	var seenMu sync.Mutex
	var fgParked atomic.Bool
	verifhook.Set(func(site string) {
		isM, isF := false, false
		for _, p := range frozenSitePrefixes {
			if strings.HasPrefix(site, p) {
				isM = true
				break
			}
		}
		for _, p := range foregroundSitePrefixes {
			if !isM && strings.HasPrefix(site, p) {
				isF = true
				break
			}
		}
		if !isM && !isF {
			return
		}
		seenMu.Lock()
		if isM {
			seen[site]++
		} else {
			seenFg[site]++
		}
		seenMu.Unlock()
		a := armed.Load()
		if a == nil || (*a != site && !(*a == "*" && isM)) {
			return
		}
		if hitsLeft.Add(-1) != 0 {
			return
		}
		armed.Store(nil)
		s := site
		frozenAt.Store(&s)
		fgParked.Store(isF)
		relMu.Lock()
		ch := release
		relMu.Unlock()
		frozen.Store(true)
		<-ch
	})
	// maintenance besides the engine's own background flush
	var mstop atomic.Bool
	var mwg sync.WaitGroup
	mwg.Add(1)
	mrr := r.Derive(99)
	go func() {
		defer mwg.Done()
		for !mstop.Load() {
			switch mrr.Intn(3) {
			case 0:
				eng.FlushImMemTables()
			case 1:
				eng.TriggerCompaction()
			case 2:
				a, b := ks.Pick(mrr), ks.Pick(mrr)
				if string(a) > string(b) {
					a, b = b, a
				}
				eng.CompactRange(a, b)
			}
			time.Sleep(time.Duration(mrr.Range(200, 3000)) * time.Microsecond)
		}
	}()
	stopMaint := func() {
		mstop.Store(true)
		armed.Store(nil)
		if frozen.Load() {
			relMu.Lock()
			close(release)
			release = make(chan struct{})
			relMu.Unlock()
			frozen.Store(false)
		}
		mwg.Wait()
	}

	execUnit := func(op kv.Op) error {
		switch op.Kind {
		case "put":
			return eng.Put(op.Key, op.Val)
		case "del":
			return eng.Delete(op.Key)
		case "batch":
			var ents []*wal.Entry
			for _, x := range op.Sub {
				if x.Kind == "put" {
					ents = append(ents, &wal.Entry{Type: wal.OpTypePut, Key: x.Key, Value: x.Val})
				} else {
					ents = append(ents, &wal.Entry{Type: wal.OpTypeDelete, Key: x.Key})
				}
			}
			return eng.ApplyBatch(ents)
		case "tx":
			tx, e := eng.BeginTransaction(false)
			if e != nil {
				return e
			}
			for _, x := range op.Sub {
				switch x.Kind {
				case "put":
					tx.Put(x.Key, x.Val)
				case "del":
					tx.Delete(x.Key)
				}
			}
			return tx.Commit()
		}
		return nil
	}
	arm := func() {
		site := "*"
		seenMu.Lock()
		var cand []string
		for s := range seen {
			cand = append(cand, s)
		}
		seenMu.Unlock()
		sort.Strings(cand)
		if len(cand) > 0 && r.Chance(85) {
			site = cand[r.Intn(len(cand))]
			if r.Chance(40) {
				// the log hand-over is where two files are open at once: look there more often
				var rot []string
				for _, s := range cand {
					if strings.HasPrefix(s, "storage.rotate.") || strings.HasPrefix(s, "wal.close.") {
						rot = append(rot, s)
					}
				}
				if len(rot) > 0 {
					site = rot[r.Intn(len(rot))]
				}
			}
		}
		if r.Chance(35) {
			seenMu.Lock()
			var fg []string
			for s := range seenFg {
				fg = append(fg, s)
			}
			seenMu.Unlock()
			sort.Strings(fg)
			if len(fg) > 0 {
				site = fg[r.Intn(len(fg))]
			}
		}
		hitsLeft.Store(int64(r.Range(1, 4)))
		armed.Store(&site)
	}
	errored := map[int]string{}
	acked := 0 // units [0, acked) have returned
	snapshots := 0
	extra := -1 // units still to run after the freeze was noticed; -1 = not frozen
	maxSnaps := 3
	if c.Thorough {
		maxSnaps = 6
	}
	nbig := 0
	arm()
	for i := 0; i < len(units) && len(res.Violations) == 0; i++ {
		if extra < 0 && frozen.Load() {
			extra = r.Range(0, 6)
			if r.Chance(60) {
				// make sure something written after the freeze reaches the file even without syncing: a value
				// larger than the log's write buffer is handed to the file directly
				nbig++
				k := []byte(fmt.Sprintf("zz-big-%d", nbig))
				big := kv.Op{Kind: "put", Key: k, Val: []byte(fmt.Sprintf("c%d/big%d|", c.Idx, nbig))}
				for len(big.Val) < 70000 {
					big.Val = append(big.Val, byte('a'+len(big.Val)%26))
				}
				at := min(i+extra, len(units))
				units = append(units[:at], append([]kv.Op{big}, units[at:]...)...)
				keys = append(keys, string(k))
				sort.Strings(keys)
			}
		}
		pending := false
		done := make(chan error, 1)
		go func(op kv.Op) { done <- execUnit(op) }(units[i])
		t0 := time.Now()
	wait:
		for {
			select {
			case e := <-done:
				if e != nil {
					errored[i] = e.Error()
				}
				acked = i + 1
				break wait
			case <-time.After(time.Millisecond):
				if frozen.Load() && fgParked.Load() {
					// the writer itself is parked inside this unit: let maintenance go on for a while
					time.Sleep(time.Duration(r.Range(0, 25)) * time.Millisecond)
					pending = true
					res.Count("foreground_parked_inside_unit", 1)
					break wait
				}
				if time.Since(t0) > 3*time.Second {
					// the unit waits for something the parked goroutine holds
					pending = true
					if !frozen.Load() {
						res.Inconclusive = fmt.Sprintf("unit %d did not return within 3s although no goroutine is parked", i)
						stopMaint()
						return
					}
					res.Count("units_blocked_by_parked_goroutine", 1)
					break wait
				}
			}
		}
		if extra > 0 && !pending {
			extra--
			continue
		}
		if extra == 0 || pending {
			// ---- the instant: copy the directory, judge the copy
			site := *frozenAt.Load()
			snapshots++
			res.Count("snapshots_with_parked_goroutine", 1)
			res.AddSet("sites_parked", site)
			issued := i + 1
			sdir := filepath.Join(c.Dir, fmt.Sprintf("snap%d", snapshots))
			if err := cloneDB(dir, sdir); err != nil {
				res.Inconclusive = "copy failed: " + err.Error()
				stopMaint()
				return
			}
			feat := map[string]string{"kind": "parked_goroutine", "parked_at": site, "sync": fmt.Sprint(cfg.SyncMode)}
			what := fmt.Sprintf("config %s: a maintenance goroutine was parked at %s, the foreground went on to unit %d (%d returned, the last one %s); directory copied at that instant", cfg, site, i, acked,
				map[bool]string{true: "is waiting for the parked goroutine", false: "returned"}[pending])
			e2, err := kv.Open(sdir, cfg)
			if err != nil {
				res.Violate("recovery_open_failed", fmt.Sprintf("%s: the copy does not open: %v", what, err), feat)
			} else {
				st, serr := kv.StateOf(e2.Get, keys)
				e2.Close()
				if serr != nil {
					res.Violate("recovered_state_unreadable", what+": "+serr.Error(), feat)
				} else {
					lo := 0
					if cfg.SyncMode == 2 {
						lo = acked
					}
					matches, _, closest, diff := kv.MatchPrefix(kv.NewModel(), units[:issued], errored, st, keys, 0, issued)
					switch {
					case len(matches) == 0:
						from := max(0, closest-3)
						var sb strings.Builder
						for u := from; u < min(issued, closest+3); u++ {
							fmt.Fprintf(&sb, "unit %d: %s\n", u, units[u].String())
						}
						res.Violate("recovered_state_not_a_prefix", fmt.Sprintf("%s: the recovered state matches no prefix of the %d issued units; closest prefix %d differs at: %s\nunits around it:\n%s", what, issued, closest, diff, sb.String()), feat)
					case matches[len(matches)-1] < lo:
						res.Violate("acknowledged_write_lost", fmt.Sprintf("%s: synchronous logging, %d units had returned, the recovered state is the prefix of length %d", what, acked, matches[len(matches)-1]), feat)
					}
				}
			}
			// release, wait for a blocked unit, go on
			relMu.Lock()
			close(release)
			release = make(chan struct{})
			relMu.Unlock()
			frozen.Store(false)
			extra = -1
			if pending {
				select {
				case e := <-done:
					if e != nil {
						errored[i] = e.Error()
					}
					acked = i + 1
				case <-time.After(30 * time.Second):
					res.Violate("hang", fmt.Sprintf("%s: after the parked goroutine was released unit %d still did not return within 30s", what, i), feat)
					return
				}
			}
			if snapshots < maxSnaps {
				arm()
			}
		}
	}
	stopMaint()
	verifhook.Set(nil)
	if len(res.Violations) > 0 {
		return
	}
	// clean close and reopen: everything that returned without error is there
	eng.Close()
	closed = true
	e3, err := kv.Open(dir, cfg)
	if err != nil {
		res.Violate("recovery_open_failed", "reopen after clean close: "+err.Error(), nil)
		return
	}
	st, serr := kv.StateOf(e3.Get, keys)
	e3.Close()
	if serr == nil {
		if m, _, closest, diff := kv.MatchPrefix(kv.NewModel(), units, errored, st, keys, len(units), len(units)); len(m) == 0 {
			res.Violate("clean_reopen_mismatch", fmt.Sprintf("config %s: after the run with parked goroutines, a clean close and a reopen the state is not the state of all %d units (closest prefix %d): %s", cfg, len(units), closest, diff), map[string]string{"kind": "parked_goroutine"})
			return
		}
	}
	res.Count("units_issued", int64(len(units)))
	res.Count("unit_errors", int64(len(errored)))
	res.Sig = core.Sig("frozen", cfg.String(), snapshots, len(units))
	res.Nontrivial = snapshots > 0
}

// c02ActiveFlush is the targeted form of one parked-goroutine schedule: an explicit flush finds no immutable
// table and writes out the *active* one; it has rotated the log already when the writer adds more entries,
// which the table file then contains although (without synchronous logging) their log records are still in
// the new log's buffer. The directory is copied right after the flush returned.
func c02ActiveFlush(c *core.Ctx, res *core.Result) {
	r := c.Rand
	cfg := kv.Cfg{MemTableSize: 32 << 20, MaxMemTables: 4, SyncMode: []int{0, 1}[r.Intn(2)], SyncBytes: 1 << 20, CompactSecs: 3600}
	dir := filepath.Join(c.Dir, "db")
	eng, err := kv.Open(dir, cfg)
	if err != nil {
		res.Violate("open_error", err.Error(), nil)
		return
	}
	defer func() {
		verifhook.Set(nil)
		eng.Close()
	}()
	nk := r.Range(3, 10)
	key := func(i int) []byte { return []byte(fmt.Sprintf("k%02d", i)) }
	var units []kv.Op
	n := 0
	put := func(i int) kv.Op {
		n++
		return kv.Op{Kind: "put", Key: key(i), Val: []byte(fmt.Sprintf("c%d/%d|", c.Idx, n))}
	}
	errored := map[int]string{}
	do := func(op kv.Op) {
		units = append(units, op)
		var err error
		if op.Kind == "put" {
			err = eng.Put(op.Key, op.Val)
		} else {
			err = eng.Delete(op.Key)
		}
		if err != nil {
			errored[len(units)-1] = err.Error()
		}
	}
	for i := 0; i < nk; i++ {
		do(put(i))
	}
	if r.Bool() {
		eng.FlushImMemTables() // the first generation is in a table and in a rotated log
		do(put(r.Intn(nk)))
	}
	// the flush that will write the active table; parked once its log rotation is complete
	var parked atomic.Bool
	release := make(chan struct{})
	verifhook.Set(func(site string) {
		if site == "storage.rotate.after_close" && parked.CompareAndSwap(false, true) {
			<-release
		}
	})
	done := make(chan struct{})
	go func() { eng.FlushImMemTables(); close(done) }()
	for i := 0; i < 3000 && !parked.Load(); i++ {
		time.Sleep(time.Millisecond)
	}
	if !parked.Load() {
		close(release)
		<-done
		res.Inconclusive = "the flush never reached the end of its log rotation"
		return
	}
	// the writer goes on: deletes of old keys and puts of new ones
	// (always at least: a delete of an old key, later a put of a new one - if only the put survives, no prefix matches)
	do(kv.Op{Kind: "del", Key: key(r.Intn(nk))})
	for i, m := 0, r.Range(0, 4); i < m; i++ {
		if r.Chance(50) {
			do(kv.Op{Kind: "del", Key: key(r.Intn(nk))})
		} else {
			do(put(nk + i))
		}
	}
	do(put(nk + 9))
	close(release)
	<-done
	verifhook.Set(nil)
	res.Count("active_table_flushes_raced", 1)
	sdir := filepath.Join(c.Dir, "snap")
	if err := cloneDB(dir, sdir); err != nil {
		res.Inconclusive = "copy failed: " + err.Error()
		return
	}
	_, keySet := unitsOf(units)
	var keys []string
	for k := range keySet {
		keys = append(keys, k)
	}
	sort.Strings(keys)
	feat := map[string]string{"kind": "active_table_flush", "sync": fmt.Sprint(cfg.SyncMode)}
	e2, err := kv.Open(sdir, cfg)
	if err != nil {
		res.Violate("recovery_open_failed", "the copy does not open: "+err.Error(), feat)
		return
	}
	st, serr := kv.StateOf(e2.Get, keys)
	e2.Close()
	if serr != nil {
		res.Violate("recovered_state_unreadable", serr.Error(), feat)
		return
	}
	if m, _, closest, diff := kv.MatchPrefix(kv.NewModel(), units, errored, st, keys, 0, len(units)); len(m) == 0 {
		var sb strings.Builder
		for u := max(0, closest-2); u < len(units); u++ {
			fmt.Fprintf(&sb, "unit %d: %s\n", u, units[u].String())
		}
		res.Violate("recovered_state_not_a_prefix", fmt.Sprintf("config %s: an explicit flush with no immutable table pending wrote out the active table; it had rotated the log when the writer issued units %d..%d; directory copied after the flush returned: the recovered state matches no prefix of the %d units; closest prefix %d differs at: %s\n%s",
			cfg, nk, len(units)-1, len(units), closest, diff, sb.String()), feat)
		return
	}
	res.Sig = core.Sig("activeflush", cfg.SyncMode, nk, len(units))
	res.Nontrivial = true
}
