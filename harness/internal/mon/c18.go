package mon

import (
	"bytes"
	"fmt"
	"runtime"
	"sort"
	"sync"
	"sync/atomic"

	"github.com/KevoDB/kevo/pkg/config"
	"github.com/KevoDB/kevo/pkg/memtable"
	"github.com/KevoDB/kevo/pkg/verifhook"

	"verif/internal/core"
	"verif/internal/kv"
)

type mtEnt struct {
	K   []byte
	V   []byte
	Del bool
	Seq uint64
}

func init() {
	core.Register(&core.Monitor{
		ID:    "C18",
		Level: "exploration",
		Race:  true,
		Rule: "pkg/memtable driven directly under the race detector. Sequential: arbitrary insert/delete sequences with non-monotone and repeated sequence numbers; Get must return " +
			"an entry of maximal sequence for the key, iteration must be (key ascending, sequence descending), complete and duplicate-free, Seek must land on the first entry >= target, " +
			"an immutable table must ignore writes. Concurrent: one writer, 2-12 readers doing Get/Seek/full iteration on the table and on a MemTablePool under concurrent switching; the writer " +
			"publishes 'inserted up to n' through an atomic after each insert, a reader samples n first and then requires everything <= n to be present, sorted traversals and no entry that was " +
			"never inserted. distinct = hash(key space, op count, reader count); non-trivial = readers completed >= 1 traversal while the writer was still inserting",
		Assumptions: []string{"single writer (the engine serialises writers with its own lock)", "ties between equal sequence numbers accept any tied entry"},
		NumCases: func(tier string) int {
			if tier == "thorough" {
				return 1200
			}
			return 96
		},
		Run: runC18,
	})
}

func genMtOps(r *core.Rand, n, nkeys int, monotone bool) []mtEnt {
	keys := make([][]byte, nkeys)
	for i := range keys {
		switch r.Pick(5, 2, 2) {
		case 0:
			keys[i] = []byte(fmt.Sprintf("k%04d", r.Intn(nkeys*4)))
		case 1:
			keys[i] = r.Bytes(r.Range(1, 6))
		case 2:
			keys[i] = append(bytes.Repeat([]byte("z"), r.Range(10, 100)), byte(r.Intn(256)))
		}
	}
	ops := make([]mtEnt, n)
	seq := uint64(r.Intn(5))
	for i := range ops {
		k := keys[r.Intn(nkeys)]
		if monotone {
			seq += uint64(r.Intn(3)) // repeated numbers happen (batches)
		} else {
			switch r.Pick(6, 2, 1) {
			case 0:
				seq = uint64(r.Intn(n * 2))
			case 1:
				seq = uint64(r.Intn(8))
			case 2:
				seq = r.U64() >> 1
			}
		}
		e := mtEnt{K: k, Seq: seq}
		if r.Chance(25) {
			e.Del = true
		} else if r.Chance(8) {
			e.V = []byte{}
		} else {
			e.V = []byte(fmt.Sprintf("v%d", i))
		}
		ops[i] = e
	}
	return ops
}

func applyMt(mt *memtable.MemTable, e mtEnt) {
	// the caller's buffers are overwritten as soon as the call has returned: the table must hold its own copy
	k, v := append([]byte{}, e.K...), append([]byte{}, e.V...)
	if e.Del {
		mt.Delete(k, e.Seq)
	} else {
		mt.Put(k, v, e.Seq)
	}
	scribbleEE(k)
	scribbleEE(v)
}

func scribbleEE(b []byte) {
	for i := range b {
		b[i] = 0xEE
	}
}

type mtIdx struct {
	byKey map[string][]int // indices into ops, in insertion order
}

func indexMt(ops []mtEnt) *mtIdx {
	x := &mtIdx{byKey: map[string][]int{}}
	for i, e := range ops {
		x.byKey[string(e.K)] = append(x.byKey[string(e.K)], i)
	}
	return x
}

// checkGet: the result must be an inserted entry for the key whose sequence is >= the
// maximal sequence among the first n inserted entries of that key.
func checkGet(ops []mtEnt, x *mtIdx, n int, key []byte, v []byte, found bool) string {
	var maxSeq uint64
	have := false
	for _, i := range x.byKey[string(key)] {
		if i < n {
			if !have || ops[i].Seq > maxSeq {
				maxSeq = ops[i].Seq
			}
			have = true
		}
	}
	if !have {
		if !found {
			return ""
		}
		// may legitimately see an entry inserted after n
		for _, i := range x.byKey[string(key)] {
			if matches(ops[i], v) {
				return ""
			}
		}
		return fmt.Sprintf("Get(%s) found %s but no such entry was ever inserted", kv.Q(key), kv.Q(v))
	}
	if !found {
		return fmt.Sprintf("Get(%s) = not found, but an entry with sequence %d was inserted before the lookup started", kv.Q(key), maxSeq)
	}
	for _, i := range x.byKey[string(key)] {
		if ops[i].Seq >= maxSeq && matches(ops[i], v) {
			return ""
		}
	}
	return fmt.Sprintf("Get(%s) = %s: not an inserted entry with sequence >= %d (the highest inserted before the lookup)", kv.Q(key), kv.Q(v), maxSeq)
}

func matches(e mtEnt, v []byte) bool {
	if e.Del {
		return v == nil
	}
	return v != nil && bytes.Equal(e.V, v)
}

type travEnt struct {
	K    []byte
	V    []byte
	Tomb bool
	Seq  uint64
}

func traverse(it *memtable.Iterator, limit int) []travEnt {
	var out []travEnt
	for ; it.Valid() && len(out) < limit; it.Next() {
		out = append(out, travEnt{K: it.Key(), V: it.Value(), Tomb: it.IsTombstone(), Seq: it.SequenceNumber()})
	}
	return out
}

// checkTraversal: sorted by (key asc, seq desc); every delivered entry was inserted;
// everything among the first n inserted entries with key >= from is present.
func checkTraversal(ops []mtEnt, x *mtIdx, n int, from []byte, got []travEnt) string {
	for i := 1; i < len(got); i++ {
		c := bytes.Compare(got[i-1].K, got[i].K)
		if c > 0 || (c == 0 && got[i-1].Seq < got[i].Seq) {
			return fmt.Sprintf("traversal not sorted by (key asc, sequence desc) at position %d: (%s,%d) before (%s,%d)", i, kv.Q(got[i-1].K), got[i-1].Seq, kv.Q(got[i].K), got[i].Seq)
		}
	}
	type ks struct {
		k string
		s uint64
		d bool
		v string
	}
	cnt := map[ks]int{}
	for _, g := range got {
		if from != nil && bytes.Compare(g.K, from) < 0 {
			return fmt.Sprintf("traversal from Seek(%s) delivered smaller key %s", kv.Q(from), kv.Q(g.K))
		}
		cnt[ks{string(g.K), g.Seq, g.Tomb, string(g.V)}]++
	}
	ins := map[ks]int{}
	insN := map[ks]int{}
	for i, e := range ops {
		k := ks{string(e.K), e.Seq, e.Del, string(e.V)}
		ins[k]++
		if i < n {
			insN[k]++
		}
	}
	for k, c := range cnt {
		if c > ins[k] {
			return fmt.Sprintf("traversal delivered (%s, seq %d, tomb %v, value %s) %d time(s), inserted %d time(s)", kv.Q([]byte(k.k)), k.s, k.d, kv.Q([]byte(k.v)), c, ins[k])
		}
	}
	for k, c := range insN {
		if from != nil && bytes.Compare([]byte(k.k), from) < 0 {
			continue
		}
		if cnt[k] < c {
			return fmt.Sprintf("entry (%s, seq %d) inserted before the traversal started is missing from it (%d of %d)", kv.Q([]byte(k.k)), k.s, cnt[k], c)
		}
	}
	return ""
}

func runC18(c *core.Ctx, res *core.Result) {
	r := c.Rand
	nkeys := []int{1, 3, 8, 40, 300}[r.Intn(5)]
	n := r.Range(50, 1500)
	if c.Thorough {
		n = r.Range(50, 6000)
	}
	monotone := r.Chance(40)
	ops := genMtOps(r, n, nkeys, monotone)
	x := indexMt(ops)
	feat := map[string]string{"monotone": fmt.Sprint(monotone)}

	// ---- sequential
	mt := memtable.NewMemTable()
	for i, e := range ops {
		applyMt(mt, e)
		if i%37 == 0 || i == len(ops)-1 {
			k := ops[r.Intn(i+1)].K
			v, found := mt.Get(k)
			if msg := checkGet(ops[:i+1], indexMt(ops[:i+1]), i+1, k, v, found); msg != "" {
				res.Violate("get_mismatch", fmt.Sprintf("sequential, after %d inserts: %s", i+1, msg), feat)
				return
			}
		}
	}
	for k := range x.byKey {
		v, found := mt.Get([]byte(k))
		res.Count("gets", 1)
		if msg := checkGet(ops, x, len(ops), []byte(k), v, found); msg != "" {
			res.Violate("get_mismatch", "sequential: "+msg, feat)
			return
		}
	}
	if v, found := mt.Get([]byte("absent-key-\x00")); found {
		res.Violate("get_mismatch", fmt.Sprintf("sequential: Get of a key never inserted found %s", kv.Q(v)), feat)
		return
	}
	it := mt.NewIterator()
	it.SeekToFirst()
	got := traverse(it, len(ops)+10)
	res.Count("traversals", 1)
	if msg := checkTraversal(ops, x, len(ops), nil, got); msg != "" {
		res.Violate("iteration_mismatch", "sequential full iteration: "+msg, feat)
		return
	}
	if len(got) != len(ops) {
		res.Violate("iteration_mismatch", fmt.Sprintf("sequential full iteration delivered %d entries, inserted %d", len(got), len(ops)), feat)
		return
	}
	sorted := make([]string, 0, len(x.byKey))
	for k := range x.byKey {
		sorted = append(sorted, k)
	}
	sort.Strings(sorted)
	for j := 0; j < 30; j++ {
		t := []byte(sorted[r.Intn(len(sorted))])
		switch r.Intn(3) {
		case 1:
			t = append(append([]byte{}, t...), 0)
		case 2:
			if len(t) > 1 {
				t = t[:len(t)-1]
			}
		}
		it := mt.NewIterator()
		it.Seek(t)
		idx := sort.SearchStrings(sorted, string(t))
		res.Count("seeks", 1)
		if idx == len(sorted) {
			if it.Valid() {
				res.Violate("seek_mismatch", fmt.Sprintf("sequential: Seek(%s) past the last key is valid at %s", kv.Q(t), kv.Q(it.Key())), feat)
				return
			}
			continue
		}
		if !it.Valid() || string(it.Key()) != sorted[idx] {
			res.Violate("seek_mismatch", fmt.Sprintf("sequential: Seek(%s) at %s (valid=%v), smallest key >= target is %s", kv.Q(t), kv.Q(it.Key()), it.Valid(), kv.Q([]byte(sorted[idx]))), feat)
			return
		}
		// first entry of a key must be its newest version
		var max uint64
		for _, i := range x.byKey[sorted[idx]] {
			if ops[i].Seq > max {
				max = ops[i].Seq
			}
		}
		if it.SequenceNumber() != max {
			res.Violate("seek_mismatch", fmt.Sprintf("sequential: Seek(%s) landed on version %d of %s, newest is %d", kv.Q(t), it.SequenceNumber(), kv.Q(it.Key()), max), feat)
			return
		}
	}
	// immutable tables ignore writes
	mt.SetImmutable()
	mt.Put([]byte("after-freeze"), []byte("x"), 1<<40)
	mt.Delete(ops[0].K, 1<<41)
	it = mt.NewIterator()
	it.SeekToFirst()
	got2 := traverse(it, len(ops)+10)
	if len(got2) != len(got) {
		res.Violate("immutable_changed", fmt.Sprintf("an immutable table changed: %d entries before, %d after writes", len(got), len(got2)), feat)
		return
	}
	for i := range got {
		if !bytes.Equal(got[i].K, got2[i].K) || got[i].Seq != got2[i].Seq || !bytes.Equal(got[i].V, got2[i].V) {
			res.Violate("immutable_changed", fmt.Sprintf("an immutable table changed at entry %d", i), feat)
			return
		}
	}

	// ---- concurrent: one writer, several readers
	readers := r.Range(2, 12)
	mt = memtable.NewMemTable()
	var published atomic.Int64
	var stop atomic.Bool
	var mu sync.Mutex
	var firstMsg string
	var during atomic.Int64
	report := func(m string) {
		mu.Lock()
		if firstMsg == "" {
			firstMsg = m
		}
		mu.Unlock()
		stop.Store(true)
	}
	var wg sync.WaitGroup
	for g := 0; g < readers; g++ {
		wg.Add(1)
		rr := r.Derive(uint64(1000 + g))
		go func() {
			defer wg.Done()
			for iter := 0; !stop.Load(); iter++ {
				n0 := int(published.Load())
				done := n0 >= len(ops)
				switch rr.Intn(3) {
				case 0:
					if n0 == 0 {
						continue
					}
					k := ops[rr.Intn(n0)].K
					v, found := mt.Get(k)
					if msg := checkGet(ops, x, n0, k, v, found); msg != "" {
						report(fmt.Sprintf("concurrent (writer at %d..): %s", n0, msg))
					}
				case 1:
					it := mt.NewIterator()
					it.SeekToFirst()
					g := traverse(it, 2*len(ops)+10)
					if msg := checkTraversal(ops, x, n0, nil, g); msg != "" {
						report(fmt.Sprintf("concurrent full iteration (writer at %d..): %s", n0, msg))
					}
				case 2:
					if n0 == 0 {
						continue
					}
					t := ops[rr.Intn(n0)].K
					it := mt.NewIterator()
					it.Seek(t)
					g := traverse(it, 2*len(ops)+10)
					if msg := checkTraversal(ops, x, n0, t, g); msg != "" {
						report(fmt.Sprintf("concurrent Seek+iteration (writer at %d..): %s", n0, msg))
					}
				}
				if !done {
					during.Add(1)
				} else if iter > 3 {
					return
				}
			}
		}()
	}
	for i, e := range ops {
		if stop.Load() {
			break
		}
		applyMt(mt, e)
		published.Store(int64(i + 1))
		if i%16 == 0 {
			// let readers in
			for y := 0; y < 2; y++ {
				sched()
			}
		}
	}
	published.Store(int64(len(ops)))
	wg.Wait()
	if firstMsg != "" {
		res.Violate("concurrent_reader_mismatch", firstMsg, feat)
		return
	}
	res.Count("concurrent_reads_during_writes", during.Load())

	// ---- targeted: the writer inserts keys in descending order, i.e. always right in front of the key
	// a reader is seeking (the most recently published one); Seek must never land on a smaller key
	{
		mt := memtable.NewMemTable()
		var lastPub atomic.Int64
		lastPub.Store(-1)
		total := 2500
		dkey := func(i int) []byte { return []byte(fmt.Sprintf("d%07d", total-i)) }
		var dstop atomic.Bool
		var dwg sync.WaitGroup
		var seeksDuring, getsDuring atomic.Int64
		for g := 0; g < 6; g++ {
			dwg.Add(1)
			rr := r.Derive(uint64(3000 + g))
			go func(g int) {
				defer dwg.Done()
				for !dstop.Load() {
					j := lastPub.Load()
					if j < 0 {
						continue
					}
					if g >= 2 {
						j = int64(rr.Intn(int(j) + 1)) // any key published so far, not only the newest
					}
					t := dkey(int(j))
					if g%2 == 1 {
						// point lookup of a key whose immediate predecessor is being linked right now
						getsDuring.Add(1)
						if v, found := mt.Get(t); !found || string(v) != "v" {
							report(fmt.Sprintf("descending-insert phase: Get(%s) = (%q, found=%v) although the key was inserted before the lookup started (a new key was being inserted right in front of it)", t, v, found))
							return
						}
						continue
					}
					it := mt.NewIterator()
					it.Seek(t)
					seeksDuring.Add(1)
					if !it.Valid() {
						report(fmt.Sprintf("descending-insert phase: Seek(%s) is invalid although the key was inserted before the seek started", t))
						return
					}
					if k := it.Key(); bytes.Compare(k, t) < 0 {
						report(fmt.Sprintf("descending-insert phase: Seek(%s) landed on the smaller key %s (inserted concurrently right in front of the target)", t, k))
						return
					}
				}
			}(g)
		}
		// yields between the level links of an insert widen the window in which a node is reachable
		// on some levels only
		verifhook.SetYield(r.U64(), int64([]int{0, 100, 400}[r.Intn(3)]))
		for i := 0; i < total && !stop.Load(); i++ {
			mt.Put(dkey(i), []byte("v"), uint64(i+1))
			lastPub.Store(int64(i))
		}
		verifhook.SetYield(0, 0)
		dstop.Store(true)
		dwg.Wait()
		if firstMsg != "" {
			res.Violate("concurrent_reader_mismatch", firstMsg, feat)
			return
		}
		res.Count("descending_phase_seeks", seeksDuring.Load())
		res.Count("descending_phase_gets", getsDuring.Load())
	}

	// ---- pool: readers during switching
	cfg := config.NewDefaultConfig(c.Dir)
	cfg.MaxMemTables = 64
	pool := memtable.NewMemTablePool(cfg)
	published.Store(0)
	stop.Store(false)
	var wg2 sync.WaitGroup
	for g := 0; g < 3; g++ {
		wg2.Add(1)
		rr := r.Derive(uint64(2000 + g))
		go func() {
			defer wg2.Done()
			for !stop.Load() {
				n0 := int(published.Load())
				if n0 == 0 {
					sched()
					continue
				}
				if rr.Bool() {
					k := ops[rr.Intn(n0)].K
					v, found := pool.Get(k)
					if !found {
						report(fmt.Sprintf("pool (writer at %d..): Get(%s) = not found although it was inserted before the lookup", n0, kv.Q(k)))
					} else {
						ok := false
						for _, i := range x.byKey[string(k)] {
							if matches(ops[i], v) {
								ok = true
							}
						}
						if !ok {
							report(fmt.Sprintf("pool: Get(%s) = %s which was never inserted", kv.Q(k), kv.Q(v)))
						}
					}
				} else {
					tables := pool.GetMemTables()
					total := 0
					for _, t := range tables {
						it := t.NewIterator()
						it.SeekToFirst()
						total += len(traverse(it, 2*len(ops)+10))
					}
					if total < n0 {
						report(fmt.Sprintf("pool: the tables returned by GetMemTables hold %d entries, %d were inserted before the call", total, n0))
					}
				}
				if n0 >= len(ops) {
					return
				}
			}
		}()
	}
	switches := 0
	for i, e := range ops {
		if stop.Load() {
			break
		}
		k, v := append([]byte{}, e.K...), append([]byte{}, e.V...)
		if e.Del {
			pool.Delete(k, e.Seq)
		} else {
			pool.Put(k, v, e.Seq)
		}
		scribbleEE(k)
		scribbleEE(v)
		published.Store(int64(i + 1))
		if r.Chance(3) && switches < 40 {
			pool.SwitchToNewMemTable()
			switches++
		}
	}
	wg2.Wait()
	if firstMsg != "" {
		res.Violate("pool_reader_mismatch", firstMsg, feat)
		return
	}
	res.Count("pool_switches", int64(switches))
	res.Count("inserts", int64(len(ops)))
	res.Sig = core.Sig(nkeys, len(ops), readers, monotone)
	res.Nontrivial = during.Load() > 0
	if c.Idx < 2 {
		var s []string
		for i := 0; i < 8 && i < len(ops); i++ {
			s = append(s, fmt.Sprintf("(%s, seq %d, del %v)", kv.Q(ops[i].K), ops[i].Seq, ops[i].Del))
		}
		res.Sample = map[string]interface{}{"case": c.Idx, "inserts": len(ops), "keys": nkeys, "monotone_sequences": monotone, "readers": readers, "first_ops": s}
	}
}

func sched() { runtime.Gosched() }
