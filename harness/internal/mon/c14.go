package mon

import (
	"bytes"
	"fmt"
	"strings"
	"time"

	"github.com/KevoDB/kevo/pkg/engine"
	"github.com/KevoDB/kevo/pkg/replication"

	"verif/internal/core"
	"verif/internal/kv"
)

func init() {
	core.Register(&core.Monitor{
		ID:    "C14",
		Level: "exploration",
		Rule: "real engines and real replication.Manager instances on loopback TCP. Scenario matrix = workload class {single puts/deletes <= 100, > 100 entries, multi-key transactions " +
			"(also >= 100 operations), explicit flush/log rotation on the primary, large values, 0.3-1.4MB values in transactions (catch-up chunks limited by bytes, not entries)} x join time {before, during, after the writes} x replica event {none, clean restart on the " +
			"same directory, link cut and restore through a controllable TCP proxy} x 1-2 replicas. Convergence is restated as bounded progress: after the primary stops writing and the link " +
			"is up, a full scan of every replica must become equal to the primary's - the wait ends when the replica's contents have not changed for 60s (normal convergence: 1-30s; the stock replica fetches ~100 entries per second; hard cap 10 min) - and still be equal 2s later. A stall is a violation whose witness holds both scans' first " +
			"difference and the replica's status; each scenario class has its own verdict. Further scenarios: 0.3-1.4MB values in transactions (byte-limited catch-up chunks), a lone write after the replicas went idle (every 6th scenario; every second instance preceded by a flush), a replica with the stock reconnect settings idle for 22s before the writes (rate bound 40s + 6s per 100 entries). distinct = hash(scenario parameters); non-trivial = the primary wrote >= 1 transaction or > 100 " +
			"entries or rotated its log, and the replica really received entries over the network",
		Assumptions: []string{"bounded liveness: 60s without any change of the replica's contents is >= 10x the interval between two catch-up batches; it is reported as a violation with the witness, not proven divergence"},
		NumCases: func(tier string) int {
			if tier == "thorough" {
				return 240
			}
			return 42
		},
		Run:         runC14,
		CaseTimeout: 6 * time.Minute,
		HangClass:   "hang",
		Workers:     7,
	})
}

type replNode struct {
	eng *engine.EngineFacade
	mgr *replication.Manager
	dir string
}

func startPrimaryNode(dir string, cfg kv.Cfg, pcfg *replication.PrimaryConfig) (*replNode, string, error) {
	eng, err := kv.Open(dir, cfg)
	if err != nil {
		return nil, "", err
	}
	addr := freePort()
	if pcfg == nil {
		pcfg = replication.DefaultPrimaryConfig()
	}
	m, err := replication.NewManager(eng, &replication.ManagerConfig{Enabled: true, Mode: replication.ReplicationModePrimary, ListenAddr: addr, PrimaryConfig: pcfg, ForceReadOnly: true})
	if err == nil {
		err = m.Start()
	}
	if err != nil {
		eng.Close()
		return nil, "", err
	}
	// wait until the listener is up
	for i := 0; i < 100; i++ {
		if c, e := netDial(addr); e == nil {
			c.Close()
			break
		}
		time.Sleep(10 * time.Millisecond)
	}
	return &replNode{eng, m, dir}, addr, nil
}

func startReplicaNode(dir string, cfg kv.Cfg, primaryAddr string) (*replNode, error) {
	return startReplicaNodeOpt(dir, cfg, primaryAddr, false)
}

// stockRetry keeps the replica's default reconnect settings (1 s base, 60 s cap) instead of the short ones
// the other scenarios use to save time.
func startReplicaNodeOpt(dir string, cfg kv.Cfg, primaryAddr string, stockRetry bool) (*replNode, error) {
	eng, err := kv.Open(dir, cfg)
	if err != nil {
		return nil, err
	}
	rc := replication.DefaultReplicaConfig()
	if !stockRetry {
		rc.Connection.RetryBaseDelay = 100 * time.Millisecond
		rc.Connection.RetryMaxDelay = time.Second
	}
	m, err := replication.NewManager(eng, &replication.ManagerConfig{Enabled: true, Mode: replication.ReplicationModeReplica, PrimaryAddr: primaryAddr, ListenAddr: freePort(), ReplicaConfig: rc, ForceReadOnly: true})
	if err == nil {
		err = m.Start()
	}
	if err != nil {
		eng.Close()
		return nil, err
	}
	return &replNode{eng, m, dir}, nil
}

func (n *replNode) stop() {
	done := make(chan struct{})
	go func() {
		n.mgr.Stop()
		n.eng.Close()
		close(done)
	}()
	select {
	case <-done:
	case <-time.After(15 * time.Second):
	}
}

func scanAll(e *engine.EngineFacade) []kv.KVPair {
	it, err := e.GetIterator()
	if err != nil {
		return nil
	}
	it.SeekToFirst()
	var out []kv.KVPair
	for _, p := range kv.Drain(it, 1<<22) {
		if !p.Tomb {
			out = append(out, p)
		}
	}
	return out
}

func firstDiff(a, b []kv.KVPair) string {
	for i := 0; i < len(a) || i < len(b); i++ {
		switch {
		case i >= len(a):
			return fmt.Sprintf("replica has extra key %s=%s (primary has %d keys, replica %d)", kv.Q(b[i].K), kv.Q(b[i].V), len(a), len(b))
		case i >= len(b):
			return fmt.Sprintf("replica lacks key %s=%s (primary has %d keys, replica %d)", kv.Q(a[i].K), kv.Q(a[i].V), len(a), len(b))
		case !bytes.Equal(a[i].K, b[i].K):
			if bytes.Compare(a[i].K, b[i].K) < 0 {
				return fmt.Sprintf("replica lacks key %s=%s", kv.Q(a[i].K), kv.Q(a[i].V))
			}
			return fmt.Sprintf("replica has extra key %s=%s", kv.Q(b[i].K), kv.Q(b[i].V))
		case !bytes.Equal(a[i].V, b[i].V):
			return fmt.Sprintf("key %s: primary %s, replica %s", kv.Q(a[i].K), kv.Q(a[i].V), kv.Q(b[i].V))
		}
	}
	return ""
}

// waitConverged polls until the replica's scan equals the primary's (the primary is quiescent).
// The bound is on *progress*, not on total time: as long as the replica's contents keep changing the
// wait continues (the stock replica fetches about 100 entries per second); it gives up when nothing
// has changed for `bound`, or after 10 minutes in total.
func waitConverged(p, r *engine.EngineFacade, bound time.Duration) (time.Duration, string) {
	t0 := time.Now()
	want := scanAll(p)
	d := ""
	lastChange := time.Now()
	lastSig := ""
	for time.Since(lastChange) < bound && time.Since(t0) < 10*time.Minute {
		got := scanAll(r)
		d = firstDiff(want, got)
		if d == "" {
			return time.Since(t0), ""
		}
		sig := fmt.Sprint(len(got), d)
		if sig != lastSig {
			lastSig, lastChange = sig, time.Now()
		}
		time.Sleep(50 * time.Millisecond)
	}
	return time.Since(t0), d
}

func runC14(c *core.Ctx, res *core.Result) {
	r := c.Rand
	workload := []string{"singles", "many", "transactions", "big_transaction", "rotation", "large_values", "mixed"}[c.Idx%7]
	if c.Idx%14 == 5 {
		// a stretch of log whose entries exceed the byte budget of one catch-up chunk long before its entry budget
		workload = "huge_chunk"
	}
	join := []string{"before", "during", "after"}[(c.Idx/7)%3]
	event := []string{"none", "restart", "linkcut", "restart"}[(c.Idx/21+c.Idx/7+c.Idx)%4]
	nrep := 1 + (c.Idx/3)%2
	// a replica with the stock reconnect settings that has been up and idle for a while before the writes arrive
	longIdle := c.Idx%14 == 9
	if longIdle {
		workload, join, event, nrep = "many", "before", "none", 1
	}
	cfg := kv.Cfg{MemTableSize: 32 << 20, MaxMemTables: 4, SyncMode: []int{0, 2}[r.Intn(2)], CompactSecs: 3600}
	feat := map[string]string{"workload": workload, "join": join, "event": event, "primary_rotated": "false"}
	desc := fmt.Sprintf("workload=%s join=%s event=%s replicas=%d sync=%d", workload, join, event, nrep, cfg.SyncMode)
	pn, paddr, err := startPrimaryNode(c.Dir+"/primary", cfg, nil)
	if err != nil {
		res.Inconclusive = "cannot start primary: " + err.Error()
		return
	}
	defer pn.stop()
	proxy, err := newProxy(paddr)
	if err != nil {
		res.Inconclusive = "proxy: " + err.Error()
		return
	}
	defer proxy.Close()
	var reps []*replNode
	startReps := func() bool {
		for i := len(reps); i < nrep; i++ {
			rn, err := startReplicaNodeOpt(fmt.Sprintf("%s/replica%d", c.Dir, i), cfg, proxy.Addr(), longIdle)
			if err != nil {
				res.Inconclusive = "cannot start replica: " + err.Error()
				return false
			}
			reps = append(reps, rn)
		}
		return true
	}
	defer func() {
		for _, rn := range reps {
			rn.stop()
		}
	}()
	if join == "before" && !startReps() {
		return
	}
	if longIdle {
		pn.eng.Put([]byte("first"), []byte("so that the replica has been through one apply/reconnect round"))
		time.Sleep(22 * time.Second)
		res.Count("long_idle_scenarios", 1)
	}
	// workload on the primary
	e := pn.eng
	nkeys := r.Range(5, 30)
	nuniq := 0
	key := func() []byte {
		if r.Chance(30) {
			// a key that is written once and never again: a skipped entry stays visible as a difference
			nuniq++
			return []byte(fmt.Sprintf("u%05d", nuniq))
		}
		return []byte(fmt.Sprintf("k%03d", r.Intn(nkeys)))
	}
	uniq := 0
	val := func(n int) []byte {
		uniq++
		v := []byte(fmt.Sprintf("c%d.%d|", c.Idx, uniq))
		for len(v) < n {
			v = append(v, byte('a'+len(v)%26))
		}
		return v
	}
	entries, txs, rotated := 0, 0, false
	total := map[string]int{"singles": r.Range(10, 90), "many": r.Range(150, 400), "transactions": r.Range(20, 80), "big_transaction": r.Range(10, 40), "rotation": r.Range(30, 120), "large_values": r.Range(10, 40), "mixed": r.Range(60, 250), "huge_chunk": r.Range(7, 12)}[workload]
	for i := 0; i < total; i++ {
		if join == "during" && i == total/2 && !startReps() {
			return
		}
		kind := workload
		if workload == "mixed" {
			kind = []string{"singles", "transactions", "large_values", "singles"}[r.Intn(4)]
		}
		switch kind {
		case "singles", "many", "rotation":
			if r.Chance(25) {
				e.Delete(key())
			} else {
				e.Put(key(), val(r.Range(8, 200)))
			}
			entries++
			if workload == "rotation" && r.Chance(6) {
				e.FlushImMemTables() // rotates the primary's log
				rotated = true
			}
		case "transactions", "big_transaction":
			tx, err := e.BeginTransaction(false)
			if err != nil {
				continue
			}
			n := r.Range(2, 8)
			if kind == "big_transaction" && r.Chance(30) {
				n = r.Range(95, 260)
			}
			for j := 0; j < n; j++ {
				k := key()
				if n > nkeys {
					k = []byte(fmt.Sprintf("k%03d~%03d", r.Intn(nkeys), j))
				}
				if r.Chance(20) {
					tx.Delete(k)
				} else {
					tx.Put(k, val(r.Range(8, 100)))
				}
			}
			if tx.Commit() == nil {
				txs++
				entries += n
			}
		case "large_values":
			e.Put(key(), val([]int{4096, 40000, 300000}[r.Intn(3)]))
			entries++
		case "huge_chunk":
			if r.Chance(40) {
				e.Put(key(), val(r.Range(300000, 1400000)))
				entries++
				break
			}
			tx, err := e.BeginTransaction(false)
			if err != nil {
				continue
			}
			n := r.Range(2, 6)
			for j := 0; j < n; j++ {
				tx.Put([]byte(fmt.Sprintf("h%03d.%d", i, j)), val(r.Range(300000, 1400000)))
			}
			if tx.Commit() == nil {
				txs++
				entries += n
			}
		}
		if event == "linkcut" && i == total/3 {
			if len(reps) > 0 {
				waitConverged(pn.eng, reps[0].eng, 20*time.Second)
			}
			proxy.Cut()
		}
		if event == "linkcut" && i == 2*total/3 {
			proxy.Restore()
		}
		if event == "restart" && i == total/2 && len(reps) > 0 {
			// clean restart of the first replica on the same directory, after it has
			// really replicated what was written so far (the workload itself takes milliseconds)
			waitConverged(pn.eng, reps[0].eng, 20*time.Second)
			res.Count("restarts_after_catch_up", 1)
			rn := reps[0]
			rn.stop()
			n2, err := startReplicaNode(rn.dir, cfg, proxy.Addr())
			if err != nil {
				res.Inconclusive = "cannot restart replica: " + err.Error()
				return
			}
			reps[0] = n2
		}
	}
	proxy.Restore()
	if join == "after" && !startReps() {
		return
	}
	if !startReps() {
		return
	}
	feat["primary_rotated"] = fmt.Sprint(rotated)
	// the primary has stopped writing and the link is up: bounded convergence
	for i, rn := range reps {
		bound := 60 * time.Second
		if workload == "huge_chunk" {
			// every poll of every session re-reads and re-serializes tens of megabytes: progress is slow by design
			bound = 150 * time.Second
		}
		took, diff := waitConverged(pn.eng, rn.eng, bound)
		res.Count("convergence_waits", 1)
		if diff != "" {
			st := rn.mgr.Status()
			var sb strings.Builder
			for _, k := range []string{"state", "last_applied_sequence", "entries_received", "entries_applied", "errors", "connected"} {
				if v, ok := st[k]; ok {
					fmt.Fprintf(&sb, "%s=%v ", k, v)
				}
			}
			res.Violate("replica_did_not_converge", fmt.Sprintf("%s: replica %d did not reach the primary's state: no progress for %s after the primary stopped writing (%d log entries, %d transactions, rotated=%v): %s\nreplica status: %s\ngoroutines inside pkg/replication:\n%s",
				desc, i, bound, entries, txs, rotated, diff, sb.String(), replicationStacks()), feat)
			return
		}
		res.Count("convergence_ms", took.Milliseconds())
		if longIdle {
			// stock settings: one reconnect (about 1.5 s) per chunk of 100 entries; allow 40 s + 6 s per chunk
			allowed := 40*time.Second + time.Duration(entries/100+1)*6*time.Second
			if took > allowed {
				res.Violate("replica_converged_too_slowly", fmt.Sprintf("%s: a replica with the stock reconnect settings, up and idle for 22s before %d entries were written, needed %s to converge (one reconnect per 100 entries should take about %ds; allowed %s)",
					desc, entries, took.Round(time.Second), (entries/100+1)*2, allowed), map[string]string{"workload": workload, "long_idle": "true"})
				return
			}
		}
		// ... and stays there
		time.Sleep(2 * time.Second)
		if d := firstDiff(scanAll(pn.eng), scanAll(rn.eng)); d != "" {
			res.Violate("replica_diverged_after_convergence", fmt.Sprintf("%s: replica %d had converged and differs again 2s later: %s", desc, i, d), feat)
			return
		}
	}
	// a lone write after the replicas have gone idle (every 6th scenario)
	if c.Idx%6 == 0 && len(res.Violations) == 0 {
		time.Sleep(2500 * time.Millisecond)
		rotatedBeforeLone := c.Idx%12 == 0
		if rotatedBeforeLone {
			// the idle stream was opened before this rotation: it has to notice the primary's new log object
			pn.eng.FlushImMemTables()
			res.Count("lone_writes_after_rotation", 1)
		}
		pn.eng.Put([]byte("lone-write-after-idle"), val(20))
		feat2 := map[string]string{"workload": workload, "join": join, "event": event, "primary_rotated": fmt.Sprint(rotated), "lone_write_after_idle": "true"}
		for i, rn := range reps {
			res.Count("lone_write_waits", 1)
			if _, diff := waitConverged(pn.eng, rn.eng, 40*time.Second); diff != "" {
				res.Violate("replica_did_not_converge", fmt.Sprintf("%s: all replicas had converged and were idle for 2.5s; the primary then (flushed first: %v) wrote a single entry and replica %d made no progress for 40s: %s", desc, rotatedBeforeLone, i, diff), feat2)
				break
			}
		}
	}
	res.Count("primary_entries", int64(entries))
	res.Count("primary_transactions", int64(txs))
	res.Sig = core.Sig(workload, join, event, nrep, cfg.SyncMode)
	res.Nontrivial = entries > 0 && (txs > 0 || entries > 100 || rotated || workload == "singles" || workload == "large_values")
	if c.Idx < 3 {
		res.Sample = map[string]interface{}{"case": c.Idx, "scenario": desc, "primary_entries": entries, "transactions": txs, "rotated": rotated}
	}
}
