package mon

import (
	"bytes"
	"fmt"
	"path/filepath"

	"github.com/KevoDB/kevo/pkg/config"
	"github.com/KevoDB/kevo/pkg/wal"

	"verif/internal/core"
	"verif/internal/kv"
)

type walRec struct {
	Seq  uint64
	Type uint8
	K, V []byte
}

func (w walRec) String() string {
	return fmt.Sprintf("{seq=%d type=%d key=%s value=%s}", w.Seq, w.Type, kv.Q(w.K), kv.Q(w.V))
}

func init() {
	core.Register(&core.Monitor{
		ID:    "C09",
		Level: "exploration",
		Rule: "generated sequences of Append / AppendBatch / AppendWithSequence / AppendBatchWithSequence on pkg/wal with key and value lengths on both sides of every format " +
			"boundary (record payload 32768 +-1, fragmented keys, deletes with fragmented keys, remaining data an exact multiple of the fragment size, empty, 100KB, batches above " +
			"the 64KB buffer), PRNG-chosen rotation (close -> new file, counter handed over) and reuse/reopen points, all sync modes; ReplayWALDir and per-file replay must deliver " +
			"exactly the appended list (type, key, value, sequence, order); GetEntriesFrom(s) must equal the stored operations with sequence >= s. " +
			"distinct = hash of the action-kind/length-class sequence; non-trivial = >= 1 fragmented entry or batch and >= 1 rotation or reopen",
		Assumptions: []string{"sequence numbers passed to the *WithSequence variants are increasing, as the replication applier passes them", "nil and empty values are the same value"},
		NumCases: func(tier string) int {
			if tier == "thorough" {
				return 12000
			}
			return 700
		},
		Run: runC09,
	})
}

// lengths around the format boundaries: payload = 1+8+4+klen(+4+vlen)
func walLens(r *core.Rand, del bool) (int, int) {
	const max = wal.MaxRecordSize
	k := r.Range(1, 40)
	if r.Chance(3) {
		k = 0 // the log itself accepts an empty key (the smallest possible payload: 13 bytes for a delete)
	} else if r.Chance(6) {
		k = []int{max - 13, max - 12, max - 14, max, max + 1, 2*max + 7, 40000}[r.Intn(7)] // the key itself is fragmented
	}
	if del {
		return k, 0
	}
	var v int
	switch r.Pick(30, 25, 10, 14, 6, 4, 3) {
	case 0:
		v = r.Range(0, 30)
	case 1:
		v = r.Range(30, 2000)
	case 2:
		v = 0
	case 3: // exactly at the single-record boundary and one byte to either side
		v = max - 17 - k + r.Range(-2, 2)
	case 4: // remaining data (after the first fragment) an exact multiple of the fragment size
		// first fragment holds 13 + min(k, max-13) bytes; the rest is key remainder + 4 + v
		v = max*r.Range(1, 3) - 4 + r.Range(-1, 1)
	case 5:
		v = r.Range(max, 3*max+100)
	case 6:
		v = 100 * 1024
	}
	if v < 0 {
		v = 0
	}
	return k, v
}

func runC09(c *core.Ctx, res *core.Result) {
	r := c.Rand
	dir := filepath.Join(c.Dir, "wal")
	cfg := config.NewDefaultConfig(c.Dir)
	cfg.WALDir = dir
	cfg.WALSyncMode = config.SyncMode(r.Intn(3))
	cfg.WALSyncBytes = []int64{1, 4096, 1 << 20}[r.Intn(3)]
	w, err := wal.NewWAL(cfg, dir)
	if err != nil {
		res.Inconclusive = "NewWAL: " + err.Error()
		return
	}
	var model []walRec
	var trace []string
	fail := func(class, msg string) {
		t := trace
		if len(t) > 80 {
			t = t[len(t)-80:]
		}
		s := ""
		for _, l := range t {
			s += l + "\n"
		}
		res.Violate(class, fmt.Sprintf("%s\nsync mode %d; actions:\n%s", msg, cfg.WALSyncMode, s), map[string]string{"sync": fmt.Sprint(cfg.WALSyncMode)})
	}
	n := r.Range(5, 40)
	if c.Thorough {
		n = r.Range(5, 120)
	}
	uniq := 0
	mk := func(l int) []byte {
		uniq++
		b := []byte(fmt.Sprintf("%d.%d.", c.Idx, uniq))
		for len(b) < l {
			b = append(b, byte('A'+len(b)%23))
		}
		return b[:l]
	}
	frag, rot := 0, 0
	sig := ""
	var files int = 1
	for i := 0; i < n && len(res.Violations) == 0; i++ {
		switch r.Pick(40, 14, 8, 5, 6, 5, 6) {
		case 0, 2: // Append / AppendWithSequence
			typ := uint8(wal.OpTypePut)
			if r.Chance(25) {
				typ = wal.OpTypeDelete
			} else if r.Chance(3) {
				typ = wal.OpTypeMerge
			}
			kl, vl := walLens(r, typ == wal.OpTypeDelete)
			k, v := mk(kl), mk(vl)
			if typ == wal.OpTypeDelete {
				v = nil
			}
			if 13+kl+4+vl > wal.MaxRecordSize {
				frag++
			}
			withSeq := r.Chance(20)
			var seq uint64
			var err error
			if withSeq {
				want := w.GetNextSequence() + uint64(r.Intn(3))
				seq, err = w.AppendWithSequence(typ, k, v, want)
				trace = append(trace, fmt.Sprintf("AppendWithSequence(type=%d, klen=%d, vlen=%d, seq=%d) -> %d %v", typ, kl, vl, want, seq, err))
				if err == nil && seq != want {
					fail("sequence_mismatch", fmt.Sprintf("AppendWithSequence(%d) returned %d", want, seq))
				}
			} else {
				seq, err = w.Append(typ, k, v)
				trace = append(trace, fmt.Sprintf("Append(type=%d, klen=%d, vlen=%d) -> %d %v", typ, kl, vl, seq, err))
			}
			if err != nil {
				fail("append_error", "append of a legal entry failed: "+err.Error())
				break
			}
			model = append(model, walRec{seq, typ, k, v})
			sig += fmt.Sprintf("a%d.%d,", kl/8192, vl/8192)
		case 1, 3: // batches
			m := r.Range(1, 8)
			if r.Chance(8) {
				m = r.Range(50, 400)
			}
			var ents []*wal.Entry
			var recs []walRec
			tot := 0
			for j := 0; j < m; j++ {
				typ := uint8(wal.OpTypePut)
				if r.Chance(30) {
					typ = wal.OpTypeDelete
				}
				kl, vl := walLens(r, typ == wal.OpTypeDelete)
				if m > 20 && vl > 3000 {
					vl = r.Range(0, 300)
				}
				k, v := mk(kl), mk(vl)
				if typ == wal.OpTypeDelete {
					v = nil
				}
				if 13+kl+4+vl > wal.MaxRecordSize {
					frag++
				}
				tot += kl + vl
				ents = append(ents, &wal.Entry{Type: typ, Key: k, Value: v})
				recs = append(recs, walRec{0, typ, k, v})
			}
			var seq uint64
			var err error
			if r.Chance(25) {
				want := w.GetNextSequence() + uint64(r.Intn(3))
				seq, err = w.AppendBatchWithSequence(ents, want)
				trace = append(trace, fmt.Sprintf("AppendBatchWithSequence(%d entries, %d bytes, seq=%d) -> %d %v", m, tot, want, seq, err))
			} else {
				seq, err = w.AppendBatch(ents)
				trace = append(trace, fmt.Sprintf("AppendBatch(%d entries, %d bytes) -> %d %v", m, tot, seq, err))
			}
			if err != nil {
				fail("append_error", "append of a legal batch failed: "+err.Error())
				break
			}
			for _, x := range recs {
				x.Seq = seq
				model = append(model, x)
			}
			frag++ // a batch counts as a non-trivial unit
			sig += fmt.Sprintf("b%d.%d,", m/16, tot/32768)
		case 4: // rotation as the storage manager does it
			next := w.GetNextSequence()
			if err := w.Close(); err != nil {
				fail("close_error", "Close: "+err.Error())
				break
			}
			nw, err := wal.NewWAL(cfg, dir)
			if err != nil {
				res.Inconclusive = "NewWAL: " + err.Error()
				return
			}
			nw.UpdateNextSequence(next)
			w = nw
			files++
			rot++
			trace = append(trace, fmt.Sprintf("rotate (next=%d)", next))
			sig += "R,"
		case 5: // close + reuse (what a clean restart does)
			next := w.GetNextSequence()
			if err := w.Close(); err != nil {
				fail("close_error", "Close: "+err.Error())
				break
			}
			nw, err := wal.ReuseWAL(cfg, dir, next)
			if err != nil {
				fail("reuse_error", "ReuseWAL: "+err.Error())
				break
			}
			if nw == nil {
				nw, err = wal.NewWAL(cfg, dir)
				if err != nil {
					res.Inconclusive = "NewWAL: " + err.Error()
					return
				}
				nw.UpdateNextSequence(next)
				files++
				trace = append(trace, fmt.Sprintf("close+reuse -> new file (next=%d)", next))
			} else {
				trace = append(trace, fmt.Sprintf("close+reuse -> reused (next=%d)", next))
			}
			w = nw
			rot++
			sig += "U,"
		case 6: // read from a sequence on the live log
			if len(model) == 0 {
				continue
			}
			var s uint64
			switch r.Intn(4) {
			case 0:
				s = model[r.Intn(len(model))].Seq
			case 1:
				s = 0
			case 2:
				s = model[len(model)-1].Seq
			case 3:
				s = model[len(model)-1].Seq + 1
			}
			got, err := w.GetEntriesFrom(s)
			res.Count("get_entries_from", 1)
			if err != nil {
				fail("read_error", fmt.Sprintf("GetEntriesFrom(%d): %v", s, err))
				break
			}
			var want []walRec
			for _, m := range model {
				if m.Seq >= s {
					want = append(want, m)
				}
			}
			trace = append(trace, fmt.Sprintf("GetEntriesFrom(%d) -> %d entries", s, len(got)))
			if msg := cmpWal(got, want); msg != "" {
				fail("get_entries_from_mismatch", fmt.Sprintf("GetEntriesFrom(%d): %s", s, msg))
			}
		}
	}
	if len(res.Violations) > 0 {
		w.Close()
		return
	}
	if err := w.Close(); err != nil {
		fail("close_error", "Close: "+err.Error())
		return
	}
	// replay the directory
	var got []*wal.Entry
	_, err = wal.ReplayWALDir(dir, func(e *wal.Entry) error {
		got = append(got, &wal.Entry{SequenceNumber: e.SequenceNumber, Type: e.Type, Key: append([]byte{}, e.Key...), Value: append([]byte(nil), e.Value...)})
		return nil
	})
	if err != nil {
		fail("replay_error", "ReplayWALDir on an undamaged log failed: "+err.Error())
		return
	}
	if msg := cmpWal(got, model); msg != "" {
		fail("replay_mismatch", "ReplayWALDir: "+msg)
		return
	}
	// per-file replay, concatenated in file order
	fs, _ := wal.FindWALFiles(dir)
	got = got[:0]
	for _, f := range fs {
		_, err := wal.ReplayWALFile(f, func(e *wal.Entry) error {
			got = append(got, &wal.Entry{SequenceNumber: e.SequenceNumber, Type: e.Type, Key: append([]byte{}, e.Key...), Value: append([]byte(nil), e.Value...)})
			return nil
		})
		if err != nil {
			fail("replay_error", fmt.Sprintf("ReplayWALFile(%s): %v", filepath.Base(f), err))
			return
		}
	}
	if msg := cmpWal(got, model); msg != "" {
		fail("replay_mismatch", "per-file replay: "+msg)
		return
	}
	res.Count("entries", int64(len(model)))
	res.Count("files", int64(len(fs)))
	res.Count("fragmented_or_batch", int64(frag))
	res.Sig = core.Sig(sig)
	res.Nontrivial = frag > 0 && rot > 0
	if c.Idx < 2 {
		t := trace
		if len(t) > 20 {
			t = t[:20]
		}
		res.Sample = map[string]interface{}{"case": c.Idx, "sync_mode": int(cfg.WALSyncMode), "actions": t, "entries": len(model), "files": len(fs)}
	}
}

func cmpWal(got []*wal.Entry, want []walRec) string {
	for i := 0; i < len(got) || i < len(want); i++ {
		if i >= len(got) {
			return fmt.Sprintf("delivered %d entries, appended %d; first missing: #%d %s", len(got), len(want), i, want[i])
		}
		if i >= len(want) {
			return fmt.Sprintf("delivered %d entries, appended %d; first extra: #%d {seq=%d type=%d key=%s}", len(got), len(want), i, got[i].SequenceNumber, got[i].Type, kv.Q(got[i].Key))
		}
		g, w := got[i], want[i]
		if g.SequenceNumber != w.Seq || g.Type != w.Type || !bytes.Equal(g.Key, w.K) || !bytes.Equal(g.Value, w.V) {
			return fmt.Sprintf("entry #%d delivered {seq=%d type=%d key=%s value=%s}, appended %s", i, g.SequenceNumber, g.Type, kv.Q(g.Key), kv.Q(g.Value), w)
		}
	}
	return ""
}
