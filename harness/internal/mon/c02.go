package mon

import (
	"fmt"
	"os"
	"path/filepath"
	"sort"
	"strings"
	"time"

	"github.com/KevoDB/kevo/pkg/engine"

	"verif/internal/core"
	"verif/internal/kv"
)

func init() {
	core.SubCommands["crashchild"] = kv.ChildMain
	core.Register(&core.Monitor{
		ID:    "C02",
		Level: "fault_enumeration",
		Rule: "a child process runs a deterministic write program (puts, deletes, batches, committed and rolled-back transactions, values up to multi-fragment size, flush/compaction/range " +
			"compaction in between) journalling 'issue i'/'ack i' with direct writes; a profiling run counts the hits of every hook site, then the child is re-run and killed (SIGKILL to self, no " +
			"deferred functions) at PRNG-chosen (site, n) pairs - sites drawn uniformly so rare sites are as likely as hot ones; n from {1, 2, middle, last, random}. A fresh engine then opens the " +
			"directory (must succeed) and its state must equal model(prefix j) for an admissible j (acked <= j <= issued with immediate sync, 0 <= j <= issued otherwise; j = issued after a clean " +
			"close), units atomic, no key outside the program's key universe. The directory is then continued for 1-2 more cycles (more writes, possibly another kill) and checked against the model " +
			"re-based on j. Every 8th case is an in-process parked-goroutine snapshot run instead: the hook callback parks a maintenance goroutine (background flush, rotation, table write, compaction) or the writer itself at the k-th hit of a chosen site while the other side goes on for a few units, the directory is copied at that instant (every goroutine is parked, waiting or idle - the image a process death leaves), judged by the same prefix oracle, the goroutine released (3 snapshots per case); every 32nd case is the staged active-table-flush schedule; every 8th case a syscall-order trace under strace. distinct = (site, n, sync mode, memtable size, program); non-trivial = the armed kill really happened with >= 1 unit issued",
		Assumptions: []string{"process death is modelled by SIGKILL (the page cache survives); lost-fsync behaviour is judged by the syscall-order monitor inside this check (strace), not by kills",
			"a write that returned an error may or may not be present after recovery (both accepted; counted)"},
		NumCases: func(tier string) int {
			if tier == "thorough" {
				return 1400
			}
			return 200
		},
		Run:         runC02,
		CaseTimeout: 10 * time.Minute,
	})
}

type crashPoint struct {
	Site string
	N    int
}

func pickCrashPoints(r *core.Rand, prof map[string]int, k int, only func(string) bool) []crashPoint {
	var sites []string
	for s, n := range prof {
		if n > 0 && (only == nil || only(s)) {
			sites = append(sites, s)
		}
	}
	sort.Strings(sites)
	var out []crashPoint
	if len(sites) == 0 {
		return out
	}
	for i := 0; i < k; i++ {
		s := sites[r.Intn(len(sites))]
		n := prof[s]
		var h int
		switch r.Intn(5) {
		case 0:
			h = 1
		case 1:
			h = 2
		case 2:
			h = (n + 1) / 2
		case 3:
			h = n
		case 4:
			h = r.Range(1, n)
		}
		if h > n {
			h = n
		}
		if h < 1 {
			h = 1
		}
		out = append(out, crashPoint{s, h})
	}
	return out
}

func unitsOf(prog []kv.Op) (units []kv.Op, keys map[string]bool) {
	keys = map[string]bool{}
	for _, op := range prog {
		if kv.IsUnit(op) {
			units = append(units, op)
		}
		if op.Key != nil && (op.Kind == "put" || op.Kind == "del") {
			keys[string(op.Key)] = true
		}
		for _, s := range op.Sub {
			if s.Kind == "put" || s.Kind == "del" {
				keys[string(s.Key)] = true
			}
		}
	}
	return
}

// recoverAndCheck opens the directory in this process and matches the state against prefixes.
// It returns the candidate models for the continuation.
func recoverAndCheck(res *core.Result, dir string, cfg kv.Cfg, bases []*kv.Model, units []kv.Op, j *kv.Journal, keys []string, universe map[string]bool, what string, feat map[string]string) []*kv.Model {
	eng, err := engine.NewEngineFacade(dir)
	if err != nil {
		res.Violate("recovery_open_failed", fmt.Sprintf("%s: opening the database after the process death failed: %v", what, err), feat)
		return nil
	}
	defer eng.Close()
	state, err := kv.StateOf(eng.Get, keys)
	if err != nil {
		res.Violate("recovery_read_error", what+": "+err.Error(), feat)
		return nil
	}
	// nothing invented: a full scan must stay inside the key universe
	it, err := eng.GetIterator()
	if err == nil {
		it.SeekToFirst()
		for _, p := range kv.Drain(it, 1<<20) {
			if !p.Tomb && !universe[string(p.K)] {
				res.Violate("recovered_invented_key", fmt.Sprintf("%s: the recovered database contains key %s = %s which no program ever wrote", what, kv.Q(p.K), kv.Q(p.V)), feat)
				return nil
			}
		}
	}
	acked := 0
	for acked < j.Issued && j.Acked[acked] {
		acked++
	}
	lo, hi := 0, j.Issued
	if cfg.SyncMode == 2 {
		lo = acked
	}
	if j.Clean {
		lo = j.Issued
		// trailing errored units may be absent
		for lo > 0 {
			if _, bad := j.Errored[lo-1]; bad {
				lo--
			} else {
				break
			}
		}
	}
	var out []*kv.Model
	closest, closestDiff, closestBase := -1, "", 0
	anyj := []int{}
	for bi, b := range bases {
		m, models, c, d := kv.MatchPrefix(b, units, j.Errored, state, keys, lo, hi)
		if len(m) > 0 {
			out = append(out, models...)
			anyj = append(anyj, m...)
		}
		if bi == 0 || closest < 0 {
			closest, closestDiff, closestBase = c, d, bi
		}
	}
	res.Count("recoveries_checked", 1)
	if len(out) == 0 {
		class := "recovered_state_not_a_prefix"
		// is it a prefix outside the admissible window? (lost acknowledged writes)
		for _, b := range bases {
			if m, _, _, _ := kv.MatchPrefix(b, units, j.Errored, state, keys, 0, len(units)); len(m) > 0 {
				if m[len(m)-1] < lo {
					class = "acknowledged_write_lost"
					closestDiff = fmt.Sprintf("state equals prefix %d but %d units were acknowledged (issued %d)", m[len(m)-1], lo, j.Issued)
				} else {
					class = "unissued_write_present"
					closestDiff = fmt.Sprintf("state equals prefix %d but only %d units were issued", m[0], j.Issued)
				}
			}
		}
		var us []string
		from := closest - 3
		if from < 0 {
			from = 0
		}
		for i := from; i < len(units) && i < closest+3; i++ {
			us = append(us, fmt.Sprintf("unit %d: %s", i, units[i].String()))
		}
		res.Violate(class, fmt.Sprintf("%s: recovered state matches no prefix j in [%d,%d] (issued %d, acked %d, clean=%v, crash=%q); closest prefix %d of base %d differs at: %s\nunits around it:\n%s",
			what, lo, hi, j.Issued, acked, j.Clean, j.Crash, closest, closestBase, closestDiff, strings.Join(us, "\n")), feat)
		return nil
	}
	if len(out) > 6 {
		out = out[:6]
	}
	_ = anyj
	return out
}

func runC02(c *core.Ctx, res *core.Result) {
	if c.Idx%8 == 7 {
		c02Syscalls(c, res)
		return
	}
	if c.Idx%8 == 3 {
		if (c.Idx/8)%4 == 3 {
			c02ActiveFlush(c, res)
			return
		}
		c02Frozen(c, res)
		return
	}
	crashCaseOpts(c, res, nil, nil)
}

// crashCaseOpts is shared by C02 (all sites) and C03 (commit-path sites, large transactions).
func crashCaseOpts(c *core.Ctx, res *core.Result, only func(string) bool, tweak func(*kv.GenOpts)) {
	r := c.Rand
	cfg := kv.Cfg{
		MemTableSize: []int64{1, 300, 1024, 4096, 64 * 1024, 32 << 20}[r.Pick(2, 3, 3, 2, 2, 1)],
		MaxMemTables: []int{1, 2, 4}[r.Intn(3)],
		SyncMode:     c.Idx % 3,
		CompactSecs:  []int64{1, 3600}[r.Intn(2)],
	}
	if cfg.SyncMode == 1 {
		cfg.SyncBytes = []int64{1, 4096, 1 << 20}[r.Intn(3)]
	}
	o := kv.GenOpts{NOps: r.Range(25, 80), NKeys: r.Range(3, 20), BigValues: r.Chance(25), Maintenance: r.Range(2, 8),
		CompactRange: r.Chance(20), Tx: true, Batch: true, BigTxPct: 15, TxWeight: 14}
	if tweak != nil {
		tweak(&o)
	}
	keySeed := r.U64()
	k := 4
	cycles := 2
	if c.Thorough {
		k = 8
		cycles = 3
	}
	spec := func(dir string, cyc int, tag string) *kv.ChildSpec {
		oo := o
		if cyc > 0 {
			oo.NOps = r.Range(8, 30)
		}
		return &kv.ChildSpec{Dir: dir, Cfg: cfg, Seed: r.Derive(uint64(cyc)).U64() + uint64(cyc), Tag: tag, Opts: oo, KeySeed: keySeed,
			Journal: filepath.Join(c.Dir, "journal"), SleepEnd: 0}
	}
	// profile run
	pdir := filepath.Join(c.Dir, "prof")
	ps := spec(pdir, 0, fmt.Sprintf("c%d.0", c.Idx))
	ps.Profile = filepath.Join(c.Dir, "profile")
	if cfg.CompactSecs == 1 {
		ps.SleepEnd = 1100 // let the compaction ticker fire once so that its sites are profiled
	}
	seed0 := ps.Seed
	err, stderr := kv.RunChild(c.Self, ps, filepath.Join(c.Dir, "spec.json"), "", "", 2*time.Minute)
	pj := kv.ReadJournal(ps.Journal)
	if err != nil || !pj.Clean {
		if strings.Contains(stderr, "panic:") || strings.Contains(stderr, "fatal error:") {
			res.Violate("child_crashed", fmt.Sprintf("the write program crashed on its own (no fault injected): %v\n%s", err, stderr), map[string]string{"cycle": "profile"})
		} else {
			res.Inconclusive = fmt.Sprintf("profiling run failed: %v", err)
		}
		return
	}
	prof := kv.ReadProfile(ps.Profile)
	for s, n := range prof {
		if n > 0 {
			res.AddSet("sites_profiled", s)
		}
	}
	os.RemoveAll(pdir)
	points := pickCrashPoints(r, prof, k, only)
	// one clean-close run per case as well
	points = append(points, crashPoint{"", 0})
	killed := 0
	for pi, cp := range points {
		if len(res.Violations) > 0 {
			break
		}
		dir := filepath.Join(c.Dir, fmt.Sprintf("db%d", pi))
		bases := []*kv.Model{kv.NewModel()}
		universe := map[string]bool{}
		for cyc := 0; cyc < cycles && len(res.Violations) == 0; cyc++ {
			s := spec(dir, cyc, fmt.Sprintf("c%d.%d", c.Idx, cyc))
			if cyc == 0 {
				s.Seed = seed0
				if cfg.CompactSecs == 1 && strings.HasPrefix(cp.Site, "compaction.") {
					s.SleepEnd = 1100
				}
			} else {
				s.Tag = fmt.Sprintf("c%d.%d.%d", c.Idx, pi, cyc)
			}
			os.Remove(s.Journal)
			crash := ""
			if cyc == 0 && cp.Site != "" {
				crash = fmt.Sprintf("%s:%d", cp.Site, cp.N)
			} else if cyc > 0 && r.Chance(50) {
				p2 := pickCrashPoints(r, prof, 1, only)
				if len(p2) == 1 {
					// hit counts of a shorter continuation are smaller: aim low
					crash = fmt.Sprintf("%s:%d", p2[0].Site, 1+r.Intn(3))
				}
			}
			yield := ""
			if r.Chance(40) {
				yield = fmt.Sprintf("%d:%d", r.U64()%100000, []int{20, 100, 300}[r.Intn(3)])
			}
			err, stderr := kv.RunChild(c.Self, s, filepath.Join(c.Dir, "spec.json"), crash, yield, 2*time.Minute)
			j := kv.ReadJournal(s.Journal)
			feat := map[string]string{"crash_site": strings.Fields(j.Crash + " -")[0], "cycle": fmt.Sprint(cyc), "sync": fmt.Sprint(cfg.SyncMode), "clean": fmt.Sprint(j.Clean)}
			what := fmt.Sprintf("config %s, cycle %d, armed crash %q (fired: %q), program seed %d tag %s", cfg, cyc, crash, j.Crash, s.Seed, s.Tag)
			if !j.Opened && j.Crash != "" {
				// the kill fired while the database was being opened (recovery itself hits hook sites):
				// a crash during recovery - no unit of this cycle was issued, the state must still be a base state
				res.Count("kills_during_recovery", 1)
			} else if !j.Opened {
				res.Violate("recovery_open_failed", fmt.Sprintf("%s: the child could not open the database: %s %v\n%s", what, j.OpenErr, err, stderr), feat)
				break
			}
			if j.Crash == "" && !j.Clean {
				if strings.Contains(stderr, "panic:") || strings.Contains(stderr, "fatal error:") {
					res.Violate("child_crashed", fmt.Sprintf("%s: the write program crashed on its own: %v\n%s", what, err, stderr), feat)
				} else {
					res.Inconclusive = fmt.Sprintf("child ended without crash marker or clean exit: %v", err)
				}
				break
			}
			if j.Crash != "" {
				killed++
				res.Count("kills", 1)
				res.AddSet("sites_killed", strings.Fields(j.Crash)[0])
			} else {
				res.Count("clean_closes", 1)
			}
			prog := kv.ProgramOf(s)
			units, ks := unitsOf(prog)
			for k := range ks {
				universe[k] = true
			}
			res.Count("units_issued", int64(j.Issued))
			res.Count("unit_errors", int64(len(j.Errored)))
			var keys []string
			for k := range universe {
				keys = append(keys, k)
			}
			sort.Strings(keys)
			bases = recoverAndCheck(res, dir, cfg, bases, units, j, keys, universe, what, feat)
			if bases == nil {
				break
			}
			if c.Idx < 2 && pi == 0 && cyc == 0 {
				var us []string
				for i, u := range units {
					if i >= 8 {
						break
					}
					us = append(us, u.String())
				}
				res.Sample = map[string]interface{}{"case": c.Idx, "config": cfg, "crash": crash, "fired": j.Crash, "issued": j.Issued, "acked": len(j.Acked), "first_units": us, "sites_in_profile": len(prof)}
			}
		}
		os.RemoveAll(dir)
	}
	res.Sig = core.Sig(cfg.String(), seed0, fmt.Sprint(points))
	res.Nontrivial = killed > 0
}
