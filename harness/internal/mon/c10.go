package mon

import (
	"bytes"
	"encoding/binary"
	"fmt"
	"io"
	"os"
	"path/filepath"
	"sort"
	"strings"

	"github.com/KevoDB/kevo/pkg/engine"
	"github.com/KevoDB/kevo/pkg/wal"

	"verif/internal/core"
	"verif/internal/kv"
)

func init() {
	core.Register(&core.Monitor{
		ID:    "C10",
		Level: "fault_enumeration",
		Rule: "a database with a log of 10-150 units (puts, deletes, batches, transactions; values from empty to several fragments) in 1-3 log files is written with immediate sync while the " +
			"monitor records every unit's end offset by stat (observed, not derived from the format). Faults on a copy: every truncation length of the newest file (exhaustive up to 3KB, else " +
			"unit boundaries +-8, record boundaries inside a unit (between fragments / batch records) +-1 and PRNG interior offsets) and single-byte corruptions in any file at header (crc/length/type) and payload positions with value classes bit flip/0x00/0xFF/+1. " +
			"Oracles: ReplayWALDir returns P ++ T with P exactly the entries that end before the first damaged byte (plus all entries of earlier files) and every element of T byte-identical to an " +
			"appended entry at or after the damage, at most once; NewEngineFacade succeeds, no key outside the appended set, every key reads as one of its appended writes not older than its last " +
			"write in the intact prefix or in an undamaged file, no log file moved away; then 3 more acknowledged writes, close, reopen: they must be present. " +
			"Ten corruptions per file are aimed at MIDDLE/LAST fragments; every 10th case is the constructed aligned-skip log (large entry, exactly 32KB of 1KB records, large entry, one byte of a later fragment of the first changed). distinct = (fault kind, offset class, log shape); non-trivial = the fault changed at least one byte inside the byte range of a unit",
		Assumptions: []string{"the order among survivors of the damaged region is recorded but not judged (the statement promises the intact prefix and 'nothing that was not appended')",
			"the full appended entry list (with sequence numbers) is read back from the undamaged log (fidelity of that read-back is C09's business)"},
		NumCases: func(tier string) int {
			if tier == "thorough" {
				return 900
			}
			return 70
		},
		Run:        runC10,
		MemLimitGB: 12,
	})
}

type c10Unit struct {
	op    kv.Op
	file  int   // index into the sorted file list
	end   int64 // size of that file after the unit was acknowledged
	first int   // index of its first entry in the appended entry list
	n     int   // number of entries
}

func copyTree(src, dst string) error {
	return filepath.Walk(src, func(p string, info os.FileInfo, err error) error {
		if err != nil {
			return err
		}
		rel, _ := filepath.Rel(src, p)
		t := filepath.Join(dst, rel)
		if info.IsDir() {
			return os.MkdirAll(t, 0755)
		}
		in, err := os.Open(p)
		if err != nil {
			return err
		}
		defer in.Close()
		out, err := os.Create(t)
		if err != nil {
			return err
		}
		defer out.Close()
		_, err = io.Copy(out, in)
		return err
	})
}

// cloneDB copies a database directory and rewrites the absolute paths in its MANIFEST.
func cloneDB(src, dst string) error {
	os.RemoveAll(dst)
	if err := copyTree(src, dst); err != nil {
		return err
	}
	mb, err := os.ReadFile(filepath.Join(dst, "MANIFEST"))
	if err != nil {
		return err
	}
	return os.WriteFile(filepath.Join(dst, "MANIFEST"), bytes.ReplaceAll(mb, []byte(src), []byte(dst)), 0644)
}

type entKey struct {
	seq uint64
	typ uint8
	k   string
	v   string
}

func runC10(c *core.Ctx, res *core.Result) {
	if c.Idx%10 == 6 {
		c10AlignedSkip(c, res)
		return
	}
	r := c.Rand
	dir := c.Dir + "/db"
	cfg := kv.Cfg{MemTableSize: 32 << 20, MaxMemTables: 4, SyncMode: 2, CompactSecs: 3600}
	eng, err := kv.Open(dir, cfg)
	if err != nil {
		res.Violate("open_error", err.Error(), nil)
		return
	}
	walDir := filepath.Join(dir, "wal")
	listWal := func(d string) []string {
		f, _ := filepath.Glob(filepath.Join(d, "*.wal"))
		sort.Strings(f)
		return f
	}
	o := kv.GenOpts{NOps: r.Range(10, 60), NKeys: r.Range(3, 14), BigValues: r.Chance(35), Tx: true, Batch: true, BigTxPct: 4}
	if c.Thorough {
		o.NOps = r.Range(10, 150)
	}
	ks := kv.GenKeySpace(r, o.NKeys)
	prog := kv.GenProgram(r, ks, fmt.Sprintf("c%d", c.Idx), o)
	rotations := r.Intn(3)
	rotAt := map[int]bool{}
	for i := 0; i < rotations; i++ {
		rotAt[r.Intn(len(prog))] = true
	}
	var units []c10Unit
	nent := 0
	x := &kv.Exec{}
	_ = x
	for i, op := range prog {
		if rotAt[i] {
			eng.FlushImMemTables() // rotates the log
		}
		if !kv.IsUnit(op) {
			continue
		}
		var werr error
		cnt := 1
		switch op.Kind {
		case "put":
			werr = eng.Put(op.Key, op.Val)
		case "del":
			werr = eng.Delete(op.Key)
		case "batch":
			var ents []*wal.Entry
			for _, s := range op.Sub {
				if s.Kind == "put" {
					ents = append(ents, &wal.Entry{Type: wal.OpTypePut, Key: s.Key, Value: s.Val})
				} else {
					ents = append(ents, &wal.Entry{Type: wal.OpTypeDelete, Key: s.Key})
				}
			}
			cnt = len(ents)
			werr = eng.ApplyBatch(ents)
		case "tx":
			tx, e := eng.BeginTransaction(false)
			if e != nil {
				werr = e
				break
			}
			seen := map[string]bool{}
			for _, s := range op.Sub {
				switch s.Kind {
				case "put":
					tx.Put(s.Key, s.Val)
					seen[string(s.Key)] = true
				case "del":
					tx.Delete(s.Key)
					seen[string(s.Key)] = true
				}
			}
			cnt = len(seen)
			if cnt == 0 {
				tx.Rollback()
				continue
			}
			werr = tx.Commit()
		}
		if werr != nil {
			res.Inconclusive = "write failed while building the log: " + werr.Error()
			eng.Close()
			return
		}
		fs := listWal(walDir)
		st, _ := os.Stat(fs[len(fs)-1])
		units = append(units, c10Unit{op: op, file: len(fs) - 1, end: st.Size(), first: nent, n: cnt})
		nent += cnt
	}
	eng.Close()
	files := listWal(walDir)
	if len(units) == 0 || len(files) == 0 {
		res.Inconclusive = "empty log"
		return
	}
	// appended entry list, read back from the undamaged log
	var appended []entKey
	_, err = wal.ReplayWALDir(walDir, func(e *wal.Entry) error {
		appended = append(appended, entKey{e.SequenceNumber, e.Type, string(e.Key), string(e.Value)})
		return nil
	})
	if err != nil || len(appended) != nent {
		res.Violate("undamaged_log_unreadable", fmt.Sprintf("the undamaged log replays %d entries (error %v), %d were appended", len(appended), err, nent), nil)
		return
	}
	sizes := make([]int64, len(files))
	for i, f := range files {
		st, _ := os.Stat(f)
		sizes[i] = st.Size()
	}
	// per key: ordered list of writes (unit index, value or nil for delete)
	type kw struct {
		unit int
		val  []byte
		del  bool
	}
	writes := map[string][]kw{}
	for ui, u := range units {
		m := kv.NewModel()
		kv.ApplyUnit(m, u.op)
		for k := range m.Ever {
			v, live := m.M[k]
			writes[k] = append(writes[k], kw{ui, v, !live})
		}
	}
	var allKeys []string
	for k := range writes {
		allKeys = append(allKeys, k)
	}
	sort.Strings(allKeys)

	// fault list
	type fault struct {
		trunc bool
		file  int
		pos   int64
		val   byte // for corruption: new byte value
		class string
	}
	var faults []fault
	last := len(files) - 1
	if sizes[last] <= 3000 {
		for p := int64(0); p < sizes[last]; p++ {
			faults = append(faults, fault{trunc: true, file: last, pos: p, class: "exhaustive"})
		}
	} else {
		seen := map[int64]bool{}
		add := func(p int64, cl string) {
			if p >= 0 && p < sizes[last] && !seen[p] {
				seen[p] = true
				faults = append(faults, fault{trunc: true, file: last, pos: p, class: cl})
			}
		}
		for _, u := range units {
			if u.file == last && r.Chance(40) {
				for d := int64(-8); d <= 8; d++ {
					add(u.end+d, "boundary")
				}
			}
		}
		for i := 0; i < 25; i++ {
			add(int64(r.Intn(int(sizes[last]))), "interior")
		}
	}
	// physical record boundaries that are not unit ends: the file stops between two fragments of one entry, or between two
	// records of one batch (walks the 7-byte record headers of the undamaged file)
	if raw, rerr := os.ReadFile(files[last]); rerr == nil {
		unitEnd := map[int64]bool{}
		for _, u := range units {
			if u.file == last {
				unitEnd[u.end] = true
			}
		}
		var inner []int64
		for pos := int64(0); pos+7 <= int64(len(raw)); {
			pos += 7 + int64(binary.LittleEndian.Uint16(raw[pos+4:pos+6]))
			if pos < int64(len(raw)) && !unitEnd[pos] {
				inner = append(inner, pos)
			}
		}
		have := map[int64]bool{}
		for _, f := range faults {
			have[f.pos] = true
		}
		for n := 0; n < 12 && len(inner) > 0; n++ {
			i := r.Intn(len(inner))
			for d := int64(-1); d <= 1; d++ {
				if p := inner[i] + d; !have[p] {
					have[p] = true
					cl := "inner_record_boundary"
					if d != 0 {
						cl = "inner_record_boundary+-1"
					}
					faults = append(faults, fault{trunc: true, file: last, pos: p, class: cl})
				}
			}
			inner = append(inner[:i], inner[i+1:]...)
		}
	}
	ncorr := 40
	if c.Thorough {
		ncorr = 90
	}
	data := make([][]byte, len(files))
	for i, f := range files {
		data[i], _ = os.ReadFile(f)
	}
	for i := 0; i < ncorr; i++ {
		f := r.Intn(len(files))
		if sizes[f] == 0 {
			continue
		}
		var p int64
		cl := "payload"
		if r.Chance(50) {
			// header bytes: the first 7 bytes after a unit boundary (crc 0-3, length 4-5, type 6)
			var bounds []int64
			bounds = append(bounds, 0)
			for _, u := range units {
				if u.file == f && u.end < sizes[f] {
					bounds = append(bounds, u.end)
				}
			}
			b := bounds[r.Intn(len(bounds))]
			off := int64(r.Intn(7))
			p = b + off
			cl = []string{"crc", "crc", "crc", "crc", "length", "length", "type"}[off]
			if p >= sizes[f] {
				p = sizes[f] - 1
			}
		} else {
			p = int64(r.Intn(int(sizes[f])))
		}
		old := data[f][p]
		var nv byte
		switch r.Intn(4) {
		case 0:
			nv = old ^ (1 << uint(r.Intn(8)))
		case 1:
			nv = 0x00
		case 2:
			nv = 0xff
		case 3:
			nv = old + 1
		}
		if cl == "type" && r.Chance(70) {
			// every other record type, valid or not (1 full, 2 first, 3 middle, 4 last): a first fragment read as a
			// full record, a full record read as a fragment, ...
			nv = []byte{1, 2, 3, 4, 0, 5}[r.Intn(6)]
		}
		if nv == old {
			nv = old ^ 0x40
		}
		faults = append(faults, fault{file: f, pos: p, val: nv, class: cl})
	}

	// the type byte of fragment headers set to every other type
	for f := range files {
		raw := data[f]
		var heads []int64
		for pos := int64(0); pos+7 <= int64(len(raw)); {
			if t := raw[pos+6]; t >= 2 && t <= 4 {
				heads = append(heads, pos+6)
			}
			pos += 7 + int64(binary.LittleEndian.Uint16(raw[pos+4:pos+6]))
		}
		for n := 0; n < 8 && len(heads) > 0; n++ {
			p := heads[r.Intn(len(heads))]
			nv := []byte{1, 2, 3, 4}[r.Intn(4)]
			if nv != raw[p] {
				faults = append(faults, fault{file: f, pos: p, val: nv, class: "fragment_type"})
			}
		}
	}
	// corruptions inside the MIDDLE/LAST fragments of multi-record entries: the reader has already collected the
	// entry's first fragments when it meets the damage
	for f := range files {
		raw := data[f]
		type span struct{ a, b int64 }
		var later []span
		for pos := int64(0); pos+7 <= int64(len(raw)); {
			l := int64(binary.LittleEndian.Uint16(raw[pos+4 : pos+6]))
			if t := raw[pos+6]; (t == 3 || t == 4) && l > 0 && pos+7+l <= int64(len(raw)) {
				later = append(later, span{pos + 7, pos + 7 + l})
			}
			pos += 7 + l
		}
		for n := 0; n < 10 && len(later) > 0; n++ {
			sp := later[r.Intn(len(later))]
			p := sp.a + int64(r.Intn(int(sp.b-sp.a)))
			faults = append(faults, fault{file: f, pos: p, val: raw[p] ^ byte(1<<uint(r.Intn(8))), class: "later_fragment"})
		}
	}
	cdir := c.Dir + "/dmg"
	effective := 0
	for _, ft := range faults {
		if len(res.Violations) > 0 {
			break
		}
		if err := cloneDB(dir, cdir); err != nil {
			res.Inconclusive = "copy failed: " + err.Error()
			return
		}
		cw := listWal(filepath.Join(cdir, "wal"))
		target := cw[ft.file]
		kind := "corrupt"
		if ft.trunc {
			kind = "truncate"
			os.Truncate(target, ft.pos)
		} else {
			fh, _ := os.OpenFile(target, os.O_RDWR, 0644)
			fh.WriteAt([]byte{ft.val}, ft.pos)
			fh.Close()
		}
		res.Count("faults_"+kind, 1)
		res.Count("faults_at_"+strings.ReplaceAll(ft.class, "+-", "_pm"), 1)
		what := fmt.Sprintf("%s file %d/%d (%d bytes) at byte %d (%s)", kind, ft.file+1, len(files), sizes[ft.file], ft.pos, ft.class)
		if !ft.trunc {
			what += fmt.Sprintf(" 0x%02x->0x%02x", data[ft.file][ft.pos], ft.val)
		}
		feat := map[string]string{"fault": kind, "pos_class": ft.class}
		// intact prefix: units in earlier files, and units of the damaged file that end at or before the damage
		intact := 0 // number of units in P
		mustHave := map[int]bool{}
		for ui, u := range units {
			if u.file < ft.file || (u.file == ft.file && u.end <= ft.pos) {
				if ui == intact {
					intact = ui + 1
				}
				mustHave[ui] = true
			} else if u.file != ft.file {
				mustHave[ui] = true // undamaged later file
			}
		}
		if intact < len(units) && units[intact].file == ft.file {
			effective++
		}
		pEnts := 0
		if intact > 0 {
			pEnts = units[intact-1].first + units[intact-1].n
		}
		// ---- log level
		var got []entKey
		_, rerr := wal.ReplayWALDir(filepath.Join(cdir, "wal"), func(e *wal.Entry) error {
			got = append(got, entKey{e.SequenceNumber, e.Type, string(e.Key), string(e.Value)})
			return nil
		})
		_ = rerr // an error return is legal as long as what was delivered obeys the rule; the engine-level oracle judges openability
		for i := 0; i < pEnts; i++ {
			if i >= len(got) || got[i] != appended[i] {
				g := "nothing"
				if i < len(got) {
					g = fmt.Sprintf("{seq=%d type=%d key=%s}", got[i].seq, got[i].typ, kv.Q([]byte(got[i].k)))
				}
				res.Violate("intact_prefix_not_recovered", fmt.Sprintf("%s: replay delivered %d entries; entry %d of the intact prefix (%d entries, %d units end before the damage) should be {seq=%d type=%d key=%s} but is %s",
					what, len(got), i, pEnts, intact, appended[i].seq, appended[i].typ, kv.Q([]byte(appended[i].k)), g), feat)
				break
			}
		}
		if len(res.Violations) > 0 {
			break
		}
		rest := map[entKey]int{}
		for _, e := range appended[pEnts:] {
			rest[e]++
		}
		for _, e := range got[min(pEnts, len(got)):] {
			if rest[e] == 0 {
				res.Violate("fabricated_log_entry", fmt.Sprintf("%s: replay delivered {seq=%d type=%d key=%s value=%s} which was not appended at or after the damage (or more often than appended)",
					what, e.seq, e.typ, kv.Q([]byte(e.k)), kv.Q([]byte(e.v))), feat)
				break
			}
			rest[e]--
		}
		if len(res.Violations) > 0 {
			break
		}
		// ---- engine level
		e2, err := engine.NewEngineFacade(cdir)
		if err != nil {
			res.Violate("recovery_open_failed", fmt.Sprintf("%s: opening the database failed: %v", what, err), feat)
			break
		}
		bad := ""
		for _, k := range allKeys {
			v, gerr := e2.Get([]byte(k))
			if gerr != nil && !kv.IsNotFound(gerr) {
				bad = fmt.Sprintf("get(%s): %v", kv.Q([]byte(k)), gerr)
				break
			}
			ws := writes[k]
			m := -1
			for i, w := range ws {
				if mustHave[w.unit] {
					m = i
				}
			}
			ok := false
			if m == -1 && gerr != nil {
				ok = true // never written within what must survive
			}
			for i := max(m, 0); i < len(ws) && !ok; i++ {
				if ws[i].del {
					ok = gerr != nil
				} else {
					ok = gerr == nil && bytes.Equal(v, ws[i].val)
				}
			}
			if !ok {
				exp := "absent"
				if m >= 0 && !ws[m].del {
					exp = kv.Q(ws[m].val)
				} else if m >= 0 {
					exp = "deleted"
				}
				bad = fmt.Sprintf("key %s reads %s (err %v); its last write that must survive (unit %d of %d, %d units intact) makes it %s and no later appended write matches either", kv.Q([]byte(k)), kv.Q(v), gerr, func() int {
					if m >= 0 {
						return ws[m].unit
					}
					return -1
				}(), len(units), intact, exp)
				break
			}
		}
		if bad == "" {
			if it, ierr := e2.GetIterator(); ierr == nil {
				it.SeekToFirst()
				for _, p := range kv.Drain(it, 1<<20) {
					if _, known := writes[string(p.K)]; !known && !p.Tomb {
						bad = fmt.Sprintf("the database contains key %s = %s which was never appended", kv.Q(p.K), kv.Q(p.V))
						break
					}
				}
			}
		}
		if bad != "" {
			e2.Close()
			res.Violate("damaged_log_state_wrong", what+": "+bad, feat)
			break
		}
		// no log file moved away
		now := map[string]bool{}
		for _, f := range listWal(filepath.Join(cdir, "wal")) {
			now[filepath.Base(f)] = true
		}
		for _, f := range files {
			if !now[filepath.Base(f)] {
				e2.Close()
				res.Violate("log_file_discarded", fmt.Sprintf("%s: log file %s is no longer in the log directory after opening", what, filepath.Base(f)), feat)
				break
			}
		}
		if len(res.Violations) > 0 {
			break
		}
		// further acknowledged writes, then a second recovery
		var post [][2][]byte
		werr := error(nil)
		for i := 0; i < 3 && werr == nil; i++ {
			k := []byte(fmt.Sprintf("post-%d", i))
			v := []byte(fmt.Sprintf("after-recovery-%d-%d", c.Idx, i))
			if i == 1 {
				k = []byte(allKeys[r.Intn(len(allKeys))])
			}
			if i == 2 && (strings.HasPrefix(ft.class, "inner_record_boundary") || r.Chance(25)) {
				// an entry larger than one record: its fragments land behind whatever the recovery left in the log
				for len(v) < 33000+r.Intn(70000) {
					v = append(v, byte('a'+len(v)%26))
				}
				res.Count("fragmented_writes_after_recovery", 1)
			}
			werr = e2.Put(k, v)
			post = append(post, [2][]byte{k, v})
		}
		e2.Close()
		if werr != nil {
			res.Violate("write_after_recovery_failed", fmt.Sprintf("%s: a write after the recovery failed: %v", what, werr), feat)
			break
		}
		e3, err := engine.NewEngineFacade(cdir)
		if err != nil {
			res.Violate("second_recovery_open_failed", fmt.Sprintf("%s: after recovery + 3 writes + close, reopening failed: %v", what, err), feat)
			break
		}
		for _, kvp := range post {
			v, gerr := e3.Get(kvp[0])
			if gerr != nil || !bytes.Equal(v, kvp[1]) {
				res.Violate("post_recovery_write_lost", fmt.Sprintf("%s: a write acknowledged after the recovery (%s=%s) reads %s (err %v) after the next restart", what, kv.Q(kvp[0]), kv.Q(kvp[1]), kv.Q(v), gerr), feat)
				break
			}
		}
		if len(res.Violations) == 0 {
			if it, ierr := e3.GetIterator(); ierr == nil {
				it.SeekToFirst()
				for _, p := range kv.Drain(it, 1<<20) {
					_, known := writes[string(p.K)]
					if !known && !p.Tomb && !strings.HasPrefix(string(p.K), "post-") {
						res.Violate("damaged_log_state_wrong", fmt.Sprintf("%s: after the second recovery the database contains key %s = %s which was never appended", what, kv.Q(p.K), kv.Q(p.V)), feat)
						break
					}
				}
			}
		}
		e3.Close()
		res.Count("second_recoveries", 1)
	}
	os.RemoveAll(cdir)
	res.Count("units", int64(len(units)))
	res.Sig = core.Sig(len(units), len(files), sizes[last], o.BigValues)
	res.Nontrivial = effective > 0
	if c.Idx < 2 {
		res.Sample = map[string]interface{}{"case": c.Idx, "units": len(units), "entries": nent, "log_files": len(files), "file_sizes": sizes, "faults": len(faults), "faults_inside_a_unit": effective}
	}
}

// c10AlignedSkip: a log in which the reader's skip-ahead after a damaged record (32 KB) lands exactly on the
// first fragment of the next multi-record entry: large entry E1, 32 filler records of exactly 1 KB, large
// entry E2; one byte inside a later fragment of E1 is changed. Replay must deliver the intact prefix and
// nothing that was not appended - in particular no entry assembled from E1's first fragments and E2's.
func c10AlignedSkip(c *core.Ctx, res *core.Result) {
	r := c.Rand
	dir := c.Dir + "/db"
	cfg := kv.Cfg{MemTableSize: 32 << 20, MaxMemTables: 4, SyncMode: 2, CompactSecs: 3600}
	eng, err := kv.Open(dir, cfg)
	if err != nil {
		res.Violate("open_error", err.Error(), nil)
		return
	}
	walDir := filepath.Join(dir, "wal")
	size := func() int64 {
		f, _ := filepath.Glob(filepath.Join(walDir, "*.wal"))
		sort.Strings(f)
		st, _ := os.Stat(f[len(f)-1])
		return st.Size()
	}
	val := func(tag string, n int) []byte {
		v := []byte(fmt.Sprintf("c%d/%s|", c.Idx, tag))
		for len(v) < n {
			v = append(v, byte('a'+len(v)%26))
		}
		return v[:n]
	}
	for i := 0; i < r.Range(1, 6); i++ {
		eng.Put([]byte(fmt.Sprintf("pre%02d", i)), val(fmt.Sprintf("pre%d", i), r.Range(10, 300)))
	}
	e1Start := size()
	eng.Put([]byte("entry-one"), val("E1", r.Range(34000, 120000)))
	e1End := size()
	for i := 0; i < 32; i++ {
		k := []byte(fmt.Sprintf("f%07d", i))                // 8 bytes
		eng.Put(k, val(fmt.Sprintf("f%d", i), 1000-len(k))) // record = 7 + 17 + 8 + 992 = 1024 bytes
	}
	e2Start := size()
	eng.Put([]byte("entry-two"), val("E2", r.Range(34000, 120000)))
	for i := 0; i < r.Range(0, 4); i++ {
		eng.Put([]byte(fmt.Sprintf("post%02d", i)), val(fmt.Sprintf("post%d", i), r.Range(10, 300)))
	}
	eng.Close()
	if e2Start-e1End != 32768 {
		res.Inconclusive = fmt.Sprintf("filler region is %d bytes, not 32768", e2Start-e1End)
		return
	}
	var appended []entKey
	wal.ReplayWALDir(walDir, func(e *wal.Entry) error {
		appended = append(appended, entKey{e.SequenceNumber, e.Type, string(e.Key), string(e.Value)})
		return nil
	})
	files, _ := filepath.Glob(filepath.Join(walDir, "*.wal"))
	sort.Strings(files)
	raw, _ := os.ReadFile(files[len(files)-1])
	// the later fragments of E1
	var later [][2]int64
	for pos := e1Start; pos < e1End; {
		l := int64(binary.LittleEndian.Uint16(raw[pos+4 : pos+6]))
		if t := raw[pos+6]; t == 3 || t == 4 {
			later = append(later, [2]int64{pos + 7, pos + 7 + l})
		}
		pos += 7 + l
	}
	if len(later) == 0 {
		res.Inconclusive = "E1 is not fragmented"
		return
	}
	cdir := c.Dir + "/dmg"
	for n := 0; n < 6 && len(res.Violations) == 0; n++ {
		sp := later[r.Intn(len(later))]
		p := sp[0] + int64(r.Intn(int(sp[1]-sp[0])))
		if err := cloneDB(dir, cdir); err != nil {
			res.Inconclusive = "copy failed: " + err.Error()
			return
		}
		cw, _ := filepath.Glob(filepath.Join(cdir, "wal", "*.wal"))
		sort.Strings(cw)
		fh, _ := os.OpenFile(cw[len(cw)-1], os.O_RDWR, 0644)
		fh.WriteAt([]byte{raw[p] ^ byte(1<<uint(r.Intn(8)))}, p)
		fh.Close()
		res.Count("faults_corrupt", 1)
		res.Count("faults_at_later_fragment_with_aligned_skip", 1)
		what := fmt.Sprintf("log: %d small entries, E1 (bytes %d..%d, %d later fragments), 32 records of 1024 bytes, E2 at byte %d; byte %d inside a later fragment of E1 changed", len(appended)-34-0, e1Start, e1End, len(later), e2Start, p)
		feat := map[string]string{"fault": "corrupt", "pos_class": "later_fragment_aligned_skip"}
		rest := map[entKey]int{}
		for _, e := range appended {
			rest[e]++
		}
		var got []entKey
		wal.ReplayWALDir(filepath.Join(cdir, "wal"), func(e *wal.Entry) error {
			got = append(got, entKey{e.SequenceNumber, e.Type, string(e.Key), string(e.Value)})
			return nil
		})
		for i, e := range got {
			if rest[e] == 0 {
				res.Violate("fabricated_log_entry", fmt.Sprintf("%s: replay delivered (as entry %d of %d) {seq=%d type=%d key=%s value=%s} which was never appended", what, i, len(got), e.seq, e.typ, kv.Q([]byte(e.k)), kv.Q([]byte(e.v))), feat)
				break
			}
			rest[e]--
		}
		for i := 0; i < len(appended) && appended[i].k != "entry-one" && len(res.Violations) == 0; i++ {
			if i >= len(got) || got[i] != appended[i] {
				res.Violate("intact_prefix_not_recovered", fmt.Sprintf("%s: entry %d in front of the damage was not delivered", what, i), feat)
			}
		}
		if len(res.Violations) > 0 {
			break
		}
		e2, err := engine.NewEngineFacade(cdir)
		if err != nil {
			res.Violate("recovery_open_failed", fmt.Sprintf("%s: opening the database failed: %v", what, err), feat)
			break
		}
		if v, gerr := e2.Get([]byte("entry-one")); gerr == nil && string(v) != appended[len(appended)-1].v {
			// the only value ever written for this key is E1's
			orig := ""
			for _, a := range appended {
				if a.k == "entry-one" {
					orig = a.v
				}
			}
			if string(v) != orig {
				res.Violate("damaged_log_state_wrong", fmt.Sprintf("%s: key entry-one reads a %d-byte value that was never written", what, len(v)), feat)
			}
		}
		e2.Close()
		res.Count("second_recoveries", 1)
	}
	os.RemoveAll(cdir)
	res.Count("units", int64(len(appended)))
	res.Sig = core.Sig("aligned", len(appended), e1End-e1Start, len(later))
	res.Nontrivial = true
}
