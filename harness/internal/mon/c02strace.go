package mon

import (
	"bufio"
	"fmt"
	"os"
	"os/exec"
	"path/filepath"
	"regexp"
	"strings"
	"time"

	"verif/internal/core"
	"verif/internal/kv"
)

var (
	reLine   = regexp.MustCompile(`^(\d+)\s+(.*)$`)
	reFdPath = regexp.MustCompile(`^\w+\(\d+<([^>]*)>`)
	reResume = regexp.MustCompile(`^<\.\.\. (\w+) resumed>`)
	reRename = regexp.MustCompile(`^rename(?:at2?)?\((?:AT_FDCWD(?:<[^>]*>)?, )?"([^"]*)", (?:AT_FDCWD(?:<[^>]*>)?, )?"([^"]*)"`)
)

// c02Syscalls runs a short immediate-sync program under strace and checks the durability ordering
// in the syscall trace: no acknowledgement while a log file has unsynced writes, no rename of a table
// file whose temp file has unsynced writes, no close of a log file with unsynced writes.
func c02Syscalls(c *core.Ctx, res *core.Result) {
	r := c.Rand
	if _, err := exec.LookPath("strace"); err != nil {
		res.Inconclusive = "strace not available"
		return
	}
	cfg := kv.Cfg{MemTableSize: []int64{300, 1024, 8192, 1 << 20}[r.Intn(4)], MaxMemTables: r.Range(1, 4), SyncMode: 2, CompactSecs: 3600}
	o := kv.GenOpts{NOps: r.Range(20, 60), NKeys: r.Range(3, 12), BigValues: r.Chance(30), Maintenance: r.Range(3, 10), CompactRange: r.Chance(20), Tx: true, Batch: true, BigTxPct: 10}
	spec := &kv.ChildSpec{Dir: filepath.Join(c.Dir, "db"), Cfg: cfg, Seed: r.U64(), Tag: fmt.Sprintf("c%d", c.Idx), Opts: o, KeySeed: r.U64(), Journal: filepath.Join(c.Dir, "journal")}
	specPath := filepath.Join(c.Dir, "spec.json")
	kv.WriteSpec(spec, specPath)
	tracePath := filepath.Join(c.Dir, "trace.txt")
	cmd := exec.Command("strace", "-f", "-y", "-s", "16", "-e", "trace=write,pwrite64,fsync,fdatasync,close,rename,renameat,renameat2", "-o", tracePath, c.Self, "crashchild", specPath)
	done := make(chan error, 1)
	if err := cmd.Start(); err != nil {
		res.Inconclusive = "strace failed to start: " + err.Error()
		return
	}
	go func() { done <- cmd.Wait() }()
	select {
	case <-done:
	case <-time.After(2 * time.Minute):
		cmd.Process.Kill()
		res.Inconclusive = "strace run timed out"
		return
	}
	j := kv.ReadJournal(spec.Journal)
	if !j.Clean {
		res.Inconclusive = "traced program did not finish"
		return
	}
	f, err := os.Open(tracePath)
	if err != nil {
		res.Inconclusive = "no trace: " + err.Error()
		return
	}
	defer f.Close()
	dirty := map[string]bool{}
	type pend struct{ call, path string }
	pending := map[string]pend{}
	acks, fsyncs, renames, walWrites := 0, 0, 0, 0
	feat := map[string]string{"kind": "syscall_order", "sync": "2"}
	var recent []string
	fail := func(class, msg string) {
		res.Violate(class, fmt.Sprintf("%s\nconfig %s\nlast syscalls:\n%s", msg, cfg, strings.Join(recent, "\n")), feat)
	}
	sc := bufio.NewScanner(f)
	sc.Buffer(make([]byte, 1<<20), 1<<24)
	for sc.Scan() && len(res.Violations) == 0 {
		m := reLine.FindStringSubmatch(sc.Text())
		if m == nil {
			continue
		}
		pid, rest := m[1], m[2]
		if strings.Contains(rest, ".wal") || strings.Contains(rest, ".sst") || strings.Contains(rest, "journal") || strings.Contains(rest, "resumed") {
			recent = append(recent, "  "+sc.Text())
			if len(recent) > 14 {
				recent = recent[1:]
			}
		}
		if rm := reResume.FindStringSubmatch(rest); rm != nil {
			p := pending[pid]
			delete(pending, pid)
			if (p.call == "fsync" || p.call == "fdatasync") && strings.Contains(rest, "= 0") {
				dirty[p.path] = false
				fsyncs++
			}
			continue
		}
		call := rest
		if i := strings.Index(rest, "("); i > 0 {
			call = rest[:i]
		}
		unfinished := strings.Contains(rest, "<unfinished")
		path := ""
		if fm := reFdPath.FindStringSubmatch(rest); fm != nil {
			path = fm[1]
		}
		switch call {
		case "write", "pwrite64":
			if strings.HasSuffix(path, "journal") {
				if i := strings.Index(rest, `"A `); i >= 0 {
					acks++
					for p, d := range dirty {
						if d && strings.HasSuffix(p, ".wal") {
							fail("ack_before_fsync", fmt.Sprintf("with immediate sync a write was acknowledged (%s) while log file %s had writes that no fsync had followed", strings.TrimSpace(rest[i:min(len(rest), i+8)]), filepath.Base(p)))
						}
					}
				}
			} else if strings.HasSuffix(path, ".wal") || strings.Contains(path, ".sst") {
				dirty[path] = true
				if strings.HasSuffix(path, ".wal") {
					walWrites++
				}
			}
		case "fsync", "fdatasync":
			if unfinished {
				pending[pid] = pend{call, path}
			} else if strings.Contains(rest, "= 0") {
				dirty[path] = false
				fsyncs++
			}
		case "close":
			if strings.HasSuffix(path, ".wal") && dirty[path] {
				fail("log_closed_unsynced", fmt.Sprintf("log file %s was closed while it had writes that no fsync had followed", filepath.Base(path)))
			}
		case "rename", "renameat", "renameat2":
			if rm := reRename.FindStringSubmatch(rest); rm != nil && strings.HasSuffix(rm[2], ".sst") {
				renames++
				if dirty[rm[1]] {
					fail("table_renamed_unsynced", fmt.Sprintf("table file %s was renamed into place while its temp file had writes that no fsync had followed", filepath.Base(rm[2])))
				}
			}
		}
		if unfinished && call != "fsync" && call != "fdatasync" {
			pending[pid] = pend{call, path}
		}
	}
	res.Count("traced_acks", int64(acks))
	res.Count("traced_fsyncs", int64(fsyncs))
	res.Count("traced_table_renames", int64(renames))
	res.Count("traced_log_writes", int64(walWrites))
	if acks == 0 || walWrites == 0 {
		res.Inconclusive = "the trace shows no acknowledged log writes (strace output not understood)"
		return
	}
	res.Sig = core.Sig("strace", cfg.String(), spec.Seed)
	res.Nontrivial = acks > 0 && fsyncs > 0
	if c.Idx%8 == 7 && c.Idx < 16 {
		res.Sample = map[string]interface{}{"case": c.Idx, "kind": "syscall order under strace", "config": cfg, "acks": acks, "fsyncs": fsyncs, "table_renames": renames, "log_writes": walWrites}
	}
}
