package mon

import (
	"bytes"
	"fmt"
	"os"
	"path/filepath"
	"sync/atomic"
	"time"

	"github.com/KevoDB/kevo/pkg/verifhook"
	"github.com/KevoDB/kevo/pkg/wal"

	"verif/internal/core"
	"verif/internal/kv"
)

func init() {
	core.Register(&core.Monitor{
		ID:    "C12",
		Level: "exploration",
		Rule: "compaction-dense generated programs with key locality (writes cluster in a moving window of the key space, so flushed files cover different ranges and several L1 files arise), " +
			"tiny memtables (1 byte .. 4KB: one table per few writes), MaxMemTables 1..4 (selects the L0->L1 / promotion / size-ratio branches), range compactions, deletes made through plain " +
			"calls, batches and transactions (tracked and untracked delete markers), restarts, offline log retirement and online retention (WAL.ManageRetention on the running engine after flushing everything). Two oracles: (1) file level - around every triggered/range compaction the " +
			"newest-wins merged view of ALL table files (read through sstable.Reader; recency from the documented file naming) must be unchanged, a delete marker may vanish only if no older version " +
			"remains in any file, every file strictly ascending; (2) engine level - every read is compared with the map model, also after reopening on the compacted files with the log retired. " +
			"Every 25th case is the staged retention-during-rotation schedule (a flush parked at one of three points of the log hand-over while ManageRetention runs on the old log handle; writes made afterwards must survive a restart). distinct = hash(config, op kinds); non-trivial = >= 1 compaction actually changed the set of table files and >= 1 reopen/retire followed",
		Assumptions: []string{"recency of table files is what their names say: lower level = newer, inside a level later creation time = newer (the rule the storage manager itself uses on restart)",
			"background compaction is switched off (interval 1h) in 70% of the cases so that the file-level comparison brackets exactly one compaction"},
		NumCases: func(tier string) int {
			if tier == "thorough" {
				return 5000
			}
			return 500
		},
		Run: runC12,
	})
}

func runC12(c *core.Ctx, res *core.Result) {
	if c.Idx%10 == 9 {
		c12CloseDuringCompaction(c, res)
		return
	}
	if c.Idx%25 == 7 {
		c12RetentionDuringRotation(c, res)
		return
	}
	r := c.Rand
	cfg := kv.Cfg{MemTableSize: []int64{1, 1, 200, 600, 4096}[r.Intn(5)], MaxMemTables: r.Range(1, 4), SyncMode: r.Intn(3), CompactSecs: 3600}
	bg := r.Chance(30)
	if bg {
		cfg.CompactSecs = 1
	}
	nops := r.Range(40, 110)
	if c.Thorough {
		nops = r.Range(40, 260)
	}
	o := kv.GenOpts{NOps: nops, NKeys: r.Range(6, 40), Maintenance: r.Range(18, 40),
		CompactRange: r.Chance(35), Retire: true, Reopen: true, Tx: true, Batch: true, OnlineRetire: r.Chance(40)}
	ks := kv.GenKeySpace(r, o.NKeys)
	ks.Locality = r.Chance(75)
	prog := kv.GenProgram(r, ks, fmt.Sprintf("c%d", c.Idx), o)
	x, err := kv.NewExec(c.Dir+"/db", cfg, res, r)
	if err != nil {
		res.Violate("open_error", err.Error(), nil)
		return
	}
	defer x.Close()
	sstDir := filepath.Join(c.Dir, "db", "sst")
	var before map[string]*kv.FileVer
	var beforeNames []string
	changed := 0
	x.BeforeOp = func(x *kv.Exec, op kv.Op) {
		before = nil
		if bg || (op.Kind != "compact" && op.Kind != "crange") {
			return
		}
		// quiesce the flush path: after two explicit flushes a still-scheduled background
		// flush can only re-write data that is already in a table file
		x.Eng.FlushImMemTables()
		x.Eng.FlushImMemTables()
		v, names, err := kv.SSTView(sstDir)
		if err != nil {
			x.Fail("table_file_unreadable", "before compaction: "+err.Error(), nil)
			return
		}
		before, beforeNames = v, names
	}
	x.AfterOp = func(x *kv.Exec, op kv.Op) {
		if before == nil {
			return
		}
		after, names, err := kv.SSTView(sstDir)
		if err != nil {
			x.Fail("table_file_unreadable", "after compaction: "+err.Error(), nil)
			return
		}
		res.Count("compactions_bracketed", 1)
		if fmt.Sprint(names) != fmt.Sprint(beforeNames) {
			changed++
			res.Count("compactions_that_changed_files", 1)
		}
		if msg := kv.CompareViews(before, after); msg != "" {
			x.Fail("compaction_changed_content", fmt.Sprintf("%s: %s\nfiles before: %v\nfiles after:  %v", op.String(), msg, beforeNames, names), nil)
		}
		before = nil
	}
	x.Run(prog)
	kinds := ""
	reopens := 0
	for _, op := range prog {
		kinds += op.Kind[:2]
		if op.Kind == "reopen" || op.Kind == "retire" {
			reopens++
		}
	}
	res.Sig = core.Sig(cfg.String(), kinds)
	res.Nontrivial = (changed > 0 || bg) && reopens > 0
	if c.Idx < 2 {
		var s []string
		for i, op := range prog {
			if i >= 25 {
				break
			}
			s = append(s, op.String())
		}
		res.Sample = map[string]interface{}{"case": c.Idx, "config": cfg, "locality": ks.Locality, "program_head": s, "compactions_that_changed_files": changed}
	}
}

// c12CloseDuringCompaction: the engine is closed while the *background* compaction worker is in the
// middle of a cycle over multi-block tables (the hook callback tells the monitor when a cycle has
// selected its inputs). Close has to wait for the cycle; afterwards the database is reopened on the
// table files alone (log retired) and must read exactly as before.
func c12CloseDuringCompaction(c *core.Ctx, res *core.Result) {
	r := c.Rand
	cfg := kv.Cfg{MemTableSize: 32 << 20, MaxMemTables: r.Range(2, 3), SyncMode: 0, CompactSecs: 1}
	dir := c.Dir + "/db"
	eng, err := kv.Open(dir, cfg)
	if err != nil {
		res.Violate("open_error", err.Error(), nil)
		return
	}
	model := kv.NewModel()
	started := make(chan struct{}, 1)
	verifhook.Set(func(site string) {
		if site == "compaction.cycle.after_select" {
			select {
			case started <- struct{}{}:
			default:
			}
			time.Sleep(time.Duration(r.Range(0, 3)) * time.Millisecond)
		}
	})
	defer verifhook.Set(nil)
	// several level-0 tables of more than one data block each, with overlapping keys, overwrites and deletes
	nfiles := cfg.MaxMemTables + r.Range(0, 2)
	for f := 0; f < nfiles; f++ {
		for i := 0; i < r.Range(60, 140); i++ {
			k := []byte(fmt.Sprintf("k%04d", r.Intn(400)))
			if r.Chance(15) {
				eng.Delete(k)
				model.Del(k)
			} else {
				v := append([]byte(fmt.Sprintf("c%d.%d.%d|", c.Idx, f, i)), bytes.Repeat([]byte("x"), r.Range(800, 3000))...)
				eng.Put(k, v)
				model.Put(k, v)
			}
		}
		eng.FlushImMemTables()
		eng.FlushImMemTables()
	}
	// wait for the background worker to start a cycle, then close at once
	hit := false
	select {
	case <-started:
		hit = true
	case <-time.After(4 * time.Second):
	}
	eng.Close()
	files, _ := filepath.Glob(filepath.Join(dir, "wal", "*.wal"))
	for _, f := range files {
		os.Remove(f)
	}
	eng, err = kv.Open(dir, cfg)
	if err != nil {
		res.Violate("open_error", "reopen after close during compaction: "+err.Error(), nil)
		return
	}
	defer eng.Close()
	feat := map[string]string{"scenario": "close_during_background_compaction"}
	lost, wrong := 0, 0
	first := ""
	for _, k := range model.EverSorted() {
		v, gerr := eng.Get([]byte(k))
		want, live := model.Get([]byte(k))
		if (gerr == nil) != live || (live && !bytes.Equal(v, want)) {
			if live && gerr != nil {
				lost++
			} else {
				wrong++
			}
			if first == "" {
				first = fmt.Sprintf("key %s reads %s (err %v), expected %s live=%v", k, kv.Q(v), gerr, kv.Q(want), live)
			}
		}
	}
	res.Count("closes_during_compaction", 1)
	if hit {
		res.Count("closes_that_hit_a_running_cycle", 1)
	}
	if first != "" {
		res.Violate("compaction_changed_content", fmt.Sprintf("the engine was closed while the background compaction worker was inside a cycle (%d level-0 tables of several blocks); after reopening on the table files %d keys are lost and %d read a wrong value, e.g. %s", nfiles, lost, wrong, first), feat)
		return
	}
	res.Sig = core.Sig("close-during-compaction", cfg.String(), nfiles, hit)
	res.Nontrivial = hit
}

// c12RetentionDuringRotation: online log retention called on a log handle that is just being rotated away
// (what a replication primary does when an acknowledgement arrives during a flush). Staged with hook parking:
// everything is flushed, the handle is taken, a flush is parked right after it has published the next log,
// retention runs on the old handle, the flush is released. Writes made afterwards go to the new log file and
// must survive a restart: retention is entitled to remove flushed *older* log files only.
func c12RetentionDuringRotation(c *core.Ctx, res *core.Result) {
	r := c.Rand
	cfg := kv.Cfg{MemTableSize: 32 << 20, MaxMemTables: 4, SyncMode: r.Intn(3), CompactSecs: 3600}
	dir := filepath.Join(c.Dir, "db")
	eng, err := kv.Open(dir, cfg)
	if err != nil {
		res.Violate("open_error", err.Error(), nil)
		return
	}
	closed := false
	release := make(chan struct{})
	var parked, armed atomic.Bool
	defer func() {
		verifhook.Set(nil)
		if !closed {
			eng.Close()
		}
	}()
	model := kv.NewModel()
	n := 0
	put := func(k string) {
		n++
		v := []byte(fmt.Sprintf("c%d/%d|", c.Idx, n))
		if eng.Put([]byte(k), v) == nil {
			model.Put([]byte(k), v)
		}
	}
	for i := 0; i < r.Range(2, 8); i++ {
		put(fmt.Sprintf("k%02d", i))
	}
	eng.FlushImMemTables()
	put("in-the-live-file")
	w := eng.GetWAL()
	site := []string{"storage.rotate.after_swap", "storage.rotate.after_oldflush", "storage.rotate.after_newwal"}[r.Intn(3)]
	verifhook.Set(func(s string) {
		if armed.Load() && s == site && parked.CompareAndSwap(false, true) {
			<-release
		}
	})
	armed.Store(true)
	done := make(chan struct{})
	go func() { eng.FlushImMemTables(); close(done) }()
	for i := 0; i < 5000 && !parked.Load(); i++ {
		time.Sleep(time.Millisecond)
	}
	if !parked.Load() {
		close(release)
		<-done
		res.Inconclusive = "the flush never reached " + site
		return
	}
	rc := wal.WALRetentionConfig{}
	policy := ""
	switch r.Intn(3) {
	case 0:
		rc.MaxFileCount, policy = 1, "MaxFileCount=1"
	case 1:
		rc.MinSequenceKeep, policy = w.GetNextSequence(), "MinSequenceKeep=next sequence (everything acknowledged)"
	case 2:
		rc.MaxFileCount, policy = 2, "MaxFileCount=2"
	}
	deleted, rerr := w.ManageRetention(rc)
	close(release)
	<-done
	armed.Store(false)
	verifhook.Set(nil)
	// writes after the retention
	put("after-retention-1")
	if k := fmt.Sprintf("k%02d", 0); eng.Delete([]byte(k)) == nil {
		model.Del([]byte(k))
	}
	put("after-retention-2")
	eng.Close()
	closed = true
	res.Count("retention_during_rotation_scenarios", 1)
	res.Count("log_files_retired_online", int64(deleted))
	feat := map[string]string{"kind": "retention_during_rotation", "parked_at": site}
	e2, err := kv.Open(dir, cfg)
	if err != nil {
		res.Violate("open_error", "reopen: "+err.Error(), feat)
		return
	}
	defer e2.Close()
	it, err := e2.GetIterator()
	if err != nil {
		res.Inconclusive = err.Error()
		return
	}
	it.SeekToFirst()
	if msg := kv.CheckScan(kv.Drain(it, 1<<20), model, nil, nil, nil); msg != "" {
		res.Violate("retention_lost_live_log", fmt.Sprintf("config %s: a flush was parked at %s (next log published, old one not yet closed) while WAL.ManageRetention{%s} ran on the old log handle (deleted %d files, err %v); writes made afterwards were acknowledged; after a clean close and restart: %s",
			cfg, site, policy, deleted, rerr, msg), feat)
		return
	}
	res.Sig = core.Sig("retrot", site, policy, cfg.SyncMode)
	res.Nontrivial = true
}
