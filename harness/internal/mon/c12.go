package mon

import (
	"fmt"
	"path/filepath"

	"verif/internal/core"
	"verif/internal/kv"
)

func init() {
	core.Register(&core.Monitor{
		ID:    "C12",
		Level: "exploration",
		Rule: "compaction-dense generated programs with key locality (writes cluster in a moving window of the key space, so flushed files cover different ranges and several L1 files arise), " +
			"tiny memtables (1 byte .. 4KB: one table per few writes), MaxMemTables 1..4 (selects the L0->L1 / promotion / size-ratio branches), range compactions, deletes made through plain " +
			"calls, batches and transactions (tracked and untracked delete markers), restarts, offline log retirement and online retention (WAL.ManageRetention on the running engine after flushing everything). Two oracles: (1) file level - around every triggered/range compaction the " +
			"newest-wins merged view of ALL table files (read through sstable.Reader; recency from the documented file naming) must be unchanged, a delete marker may vanish only if no older version " +
			"remains in any file, every file strictly ascending; (2) engine level - every read is compared with the map model, also after reopening on the compacted files with the log retired. " +
			"distinct = hash(config, op kinds); non-trivial = >= 1 compaction actually changed the set of table files and >= 1 reopen/retire followed",
		Assumptions: []string{"recency of table files is what their names say: lower level = newer, inside a level later creation time = newer (the rule the storage manager itself uses on restart)",
			"background compaction is switched off (interval 1h) in 70% of the cases so that the file-level comparison brackets exactly one compaction"},
		NumCases: func(tier string) int {
			if tier == "thorough" {
				return 5000
			}
			return 500
		},
		Run: runC12,
	})
}

func runC12(c *core.Ctx, res *core.Result) {
	r := c.Rand
	cfg := kv.Cfg{MemTableSize: []int64{1, 1, 200, 600, 4096}[r.Intn(5)], MaxMemTables: r.Range(1, 4), SyncMode: r.Intn(3), CompactSecs: 3600}
	bg := r.Chance(30)
	if bg {
		cfg.CompactSecs = 1
	}
	nops := r.Range(40, 110)
	if c.Thorough {
		nops = r.Range(40, 260)
	}
	o := kv.GenOpts{NOps: nops, NKeys: r.Range(6, 40), Maintenance: r.Range(18, 40),
		CompactRange: r.Chance(35), Retire: true, Reopen: true, Tx: true, Batch: true, OnlineRetire: r.Chance(40)}
	ks := kv.GenKeySpace(r, o.NKeys)
	ks.Locality = r.Chance(75)
	prog := kv.GenProgram(r, ks, fmt.Sprintf("c%d", c.Idx), o)
	x, err := kv.NewExec(c.Dir+"/db", cfg, res, r)
	if err != nil {
		res.Violate("open_error", err.Error(), nil)
		return
	}
	defer x.Close()
	sstDir := filepath.Join(c.Dir, "db", "sst")
	var before map[string]*kv.FileVer
	var beforeNames []string
	changed := 0
	x.BeforeOp = func(x *kv.Exec, op kv.Op) {
		before = nil
		if bg || (op.Kind != "compact" && op.Kind != "crange") {
			return
		}
		// quiesce the flush path: after two explicit flushes a still-scheduled background
		// flush can only re-write data that is already in a table file
		x.Eng.FlushImMemTables()
		x.Eng.FlushImMemTables()
		v, names, err := kv.SSTView(sstDir)
		if err != nil {
			x.Fail("table_file_unreadable", "before compaction: "+err.Error(), nil)
			return
		}
		before, beforeNames = v, names
	}
	x.AfterOp = func(x *kv.Exec, op kv.Op) {
		if before == nil {
			return
		}
		after, names, err := kv.SSTView(sstDir)
		if err != nil {
			x.Fail("table_file_unreadable", "after compaction: "+err.Error(), nil)
			return
		}
		res.Count("compactions_bracketed", 1)
		if fmt.Sprint(names) != fmt.Sprint(beforeNames) {
			changed++
			res.Count("compactions_that_changed_files", 1)
		}
		if msg := kv.CompareViews(before, after); msg != "" {
			x.Fail("compaction_changed_content", fmt.Sprintf("%s: %s\nfiles before: %v\nfiles after:  %v", op.String(), msg, beforeNames, names), nil)
		}
		before = nil
	}
	x.Run(prog)
	kinds := ""
	reopens := 0
	for _, op := range prog {
		kinds += op.Kind[:2]
		if op.Kind == "reopen" || op.Kind == "retire" {
			reopens++
		}
	}
	res.Sig = core.Sig(cfg.String(), kinds)
	res.Nontrivial = (changed > 0 || bg) && reopens > 0
	if c.Idx < 2 {
		var s []string
		for i, op := range prog {
			if i >= 25 {
				break
			}
			s = append(s, op.String())
		}
		res.Sample = map[string]interface{}{"case": c.Idx, "config": cfg, "locality": ks.Locality, "program_head": s, "compactions_that_changed_files": changed}
	}
}
