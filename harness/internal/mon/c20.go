package mon

import (
	"bytes"
	"encoding/json"
	"fmt"
	"math"
	"os"
	"path/filepath"
	"reflect"
	"sort"
	"strings"
	"unicode/utf8"

	"github.com/KevoDB/kevo/pkg/config"
	"github.com/KevoDB/kevo/pkg/engine"

	"verif/internal/core"
	"verif/internal/kv"
)

func init() {
	core.Register(&core.Monitor{
		ID:    "C20",
		Level: "exploration",
		Rule: "configurations generated around the validity boundaries (every numeric field at min/-1/0/1/default/max, the ratio at 1.0/next above/NaN/+-Inf, strings empty/ASCII/Unicode/" +
			"invalid UTF-8, the two threshold fields around their coupled bounds, pairs perturbed together). Oracle 1: Validate()==nil iff an independent restatement of the documented " +
			"constraints (plus storability in the JSON manifest) holds. Oracle 2: invalid => SaveManifest fails and the directory is byte-identical; valid => LoadConfigFromManifest returns an " +
			"equal configuration. Oracle 3 (every 25th case): a database created with a non-default configuration is reopened: MANIFEST unchanged, loads to the same configuration; for every " +
			"truncation length of the MANIFEST and for valid-JSON-but-invalid rewrites NewEngineFacade fails and leaves manifest, log and table files byte-identical; the same for a MANIFEST that exists but cannot be read (symbolic link loop, directory). " +
			"Oracle 4 (every 10th case): the same through the versioned config.Manifest type - NewManifest and UpdateConfig accept exactly the valid configurations, a rejected update changes nothing, Save+LoadManifest return the current configuration, and a current configuration made invalid in place through the shared *Config is rejected by Save with the directory byte-identical. " +
			"distinct = hash of the field assignment; non-trivial = at least one field differs from the default",
		Assumptions: []string{"the documented constraints are those stated in pkg/config (messages of Validate) and docs/config.md", "a missing MANIFEST is a new database, not an unreadable configuration"},
		NumCases: func(tier string) int {
			if tier == "thorough" {
				return 150000
			}
			return 6000
		},
		Run: runC20,
	})
}

func cfgValid(c *config.Config) bool {
	finite := !math.IsNaN(c.CompactionRatio) && !math.IsInf(c.CompactionRatio, 0)
	return c.Version > 0 && c.WALDir != "" && c.SSTDir != "" && c.MemTableSize > 0 && c.MaxMemTables > 0 &&
		c.SSTableBlockSize > 0 && c.SSTableIndexSize > 0 && c.CompactionLevels > 0 && c.CompactionRatio > 1.0 && finite &&
		c.ReadOnlyTxTTL > 0 && c.ReadWriteTxTTL > 0 && c.IdleTxTimeout > 0 && c.TxCleanupInterval > 0 &&
		c.TxWarningThreshold > 0 && c.TxWarningThreshold < 100 &&
		c.TxCriticalThreshold > c.TxWarningThreshold && c.TxCriticalThreshold < 100 &&
		utf8.ValidString(c.WALDir) && utf8.ValidString(c.SSTDir)
}

func pickInt64(r *core.Rand, def int64) int64 {
	return []int64{math.MinInt64, -1, 0, 1, def, def + 1, math.MaxInt64, 2}[r.Intn(8)]
}
func pickInt(r *core.Rand, def int) int {
	return []int{math.MinInt32, -1, 0, 1, def, def + 1, math.MaxInt32, 99, 100, 101}[r.Intn(10)]
}

var cfgStrings = []string{"", "wal", "relative/dir", "/abs/dir", "dir with space", "日本語/ディレクトリ", "wal-\xff\xfe", "\xc3\x28", "a\x00b", "é"}

func perturb(r *core.Rand, c *config.Config, changed *[]string) {
	f := r.Intn(24)
	switch f {
	case 0:
		c.Version = pickInt(r, 1)
	case 1:
		c.WALDir = cfgStrings[r.Intn(len(cfgStrings))]
	case 2:
		c.SSTDir = cfgStrings[r.Intn(len(cfgStrings))]
	case 3:
		c.MemTableSize = pickInt64(r, 32<<20)
	case 4:
		c.MaxMemTables = pickInt(r, 4)
	case 5:
		c.SSTableBlockSize = pickInt(r, 16384)
	case 6:
		c.SSTableIndexSize = pickInt(r, 65536)
	case 7:
		c.CompactionLevels = pickInt(r, 7)
	case 8:
		c.CompactionRatio = []float64{1.0, math.Nextafter(1.0, 2), math.Nextafter(1.0, 0), 0, -1, 10, math.NaN(), math.Inf(1), math.Inf(-1), math.MaxFloat64, 1e-300}[r.Intn(11)]
	case 9:
		c.ReadOnlyTxTTL = pickInt64(r, 180)
	case 10:
		c.ReadWriteTxTTL = pickInt64(r, 60)
	case 11:
		c.IdleTxTimeout = pickInt64(r, 30)
	case 12:
		c.TxCleanupInterval = pickInt64(r, 30)
	case 13:
		c.TxWarningThreshold = []int{-1, 0, 1, 50, 75, 89, 90, 91, 98, 99, 100, 101}[r.Intn(12)]
	case 14:
		c.TxCriticalThreshold = []int{-1, 0, 1, 2, 75, 76, 90, 98, 99, 100, 101}[r.Intn(11)]
	case 15: // coupled thresholds
		w := r.Range(-1, 101)
		c.TxWarningThreshold = w
		c.TxCriticalThreshold = w + r.Range(-1, 2)
	case 16:
		c.WALSyncMode = config.SyncMode(r.Range(-1, 4))
	case 17:
		c.WALSyncBytes = pickInt64(r, 1<<20)
	case 18:
		c.WALMaxSize = pickInt64(r, 0)
	case 19:
		c.MaxMemTableAge = pickInt64(r, 600)
	case 20:
		c.SSTableMaxSize = pickInt64(r, 64<<20)
	case 21:
		c.CompactionInterval = pickInt64(r, 30)
	case 22:
		c.MaxLevelWithTombstones = pickInt(r, 1)
	case 23:
		c.CompactionThreads = pickInt(r, 2)
	}
	*changed = append(*changed, fmt.Sprint(f))
}

func cfgJSON(c *config.Config) string {
	// field-for-field rendering that also works for NaN/Inf and raw bytes
	v := reflect.ValueOf(c).Elem()
	t := v.Type()
	s := ""
	for i := 0; i < v.NumField(); i++ {
		if !t.Field(i).IsExported() {
			continue
		}
		s += fmt.Sprintf("%s=%#v ", t.Field(i).Name, v.Field(i).Interface())
	}
	return s
}

func cfgEqual(a, b *config.Config) bool {
	va, vb := reflect.ValueOf(a).Elem(), reflect.ValueOf(b).Elem()
	t := va.Type()
	for i := 0; i < va.NumField(); i++ {
		if !t.Field(i).IsExported() {
			continue
		}
		if !reflect.DeepEqual(va.Field(i).Interface(), vb.Field(i).Interface()) {
			return false
		}
	}
	return true
}

// snapshotDir returns path -> content for every regular file below dir.
func snapshotDir(dir string) map[string]string {
	m := map[string]string{}
	filepath.Walk(dir, func(p string, info os.FileInfo, err error) error {
		if err != nil {
			return nil
		}
		rel, _ := filepath.Rel(dir, p)
		if info.IsDir() {
			m[rel+"/"] = ""
			return nil
		}
		b, _ := os.ReadFile(p)
		m[rel] = string(b)
		return nil
	})
	return m
}

func diffSnap(a, b map[string]string) string {
	var ks []string
	for k := range a {
		ks = append(ks, k)
	}
	for k := range b {
		if _, ok := a[k]; !ok {
			ks = append(ks, k)
		}
	}
	sort.Strings(ks)
	for _, k := range ks {
		x, okx := a[k]
		y, oky := b[k]
		switch {
		case !okx:
			return "created " + k
		case !oky:
			return "removed " + k
		case x != y:
			return "modified " + k
		}
	}
	return ""
}

func runC20(c *core.Ctx, res *core.Result) {
	r := c.Rand
	dir := filepath.Join(c.Dir, "db")
	cfg := config.NewDefaultConfig(dir)
	var changed []string
	for i, n := 0, r.Pick(1, 6, 4, 2); i < n; i++ {
		perturb(r, cfg, &changed)
	}
	desc := cfgJSON(cfg)
	want := cfgValid(cfg)
	err := cfg.Validate()
	res.Count("validate_calls", 1)
	feat := map[string]string{"expected_valid": fmt.Sprint(want)}
	if (err == nil) != want {
		res.Violate("validate_mismatch", fmt.Sprintf("Validate() = %v but the documented constraints say valid=%v for %s", err, want, desc), feat)
		return
	}
	if want {
		res.Count("valid", 1)
	} else {
		res.Count("invalid", 1)
	}
	// Oracle 2
	os.MkdirAll(dir, 0755)
	preExisting := r.Chance(50)
	if preExisting {
		config.NewDefaultConfig(dir).SaveManifest(dir)
	}
	staleTmp := r.Chance(30)
	if staleTmp {
		// what a save that died between the temp write and the rename leaves behind
		junk := []byte(strings.Repeat("{\"stale\": \"left over by an interrupted save\"} ", r.Range(1, 60)))
		os.WriteFile(filepath.Join(dir, config.DefaultManifestFileName+".tmp"), junk, 0644)
	}
	before := snapshotDir(dir)
	serr := cfg.SaveManifest(dir)
	after := snapshotDir(dir)
	if !want {
		if serr == nil {
			res.Violate("invalid_config_stored", "SaveManifest accepted a configuration that violates a documented constraint: "+desc, feat)
			return
		}
		if d := diffSnap(before, after); d != "" {
			res.Violate("invalid_config_side_effect", fmt.Sprintf("SaveManifest rejected the configuration (%v) but %s; config: %s", serr, d, desc), feat)
			return
		}
	} else {
		if serr != nil {
			res.Violate("valid_config_not_stored", fmt.Sprintf("SaveManifest failed for a configuration that passes validation: %v; config: %s", serr, desc), feat)
			return
		}
		got, lerr := config.LoadConfigFromManifest(dir)
		if lerr != nil {
			res.Violate("valid_config_not_loaded", fmt.Sprintf("LoadConfigFromManifest failed after a successful SaveManifest: %v; config: %s", lerr, desc), feat)
			return
		}
		if !cfgEqual(got, cfg) {
			res.Violate("config_roundtrip_mismatch", fmt.Sprintf("stored %s\nloaded %s", desc, cfgJSON(got)), feat)
			return
		}
		res.Count("roundtrips", 1)
		for k := range after {
			if k != config.DefaultManifestFileName && k != "./" && k != "." && k != "/" {
				if _, ok := before[k]; !ok {
					res.Violate("manifest_temp_file_left", "SaveManifest left "+k+" behind", feat)
					return
				}
			}
		}
	}
	res.Sig = core.Sig(desc)
	res.Nontrivial = len(changed) > 0

	// Oracle 3: engine level, on a subset of the cases
	if c.Idx%25 == 0 {
		engineConfigCheck(c, res)
	}
	// Oracle 4: the same statement through the versioned Manifest type of pkg/config/manifest.go
	if c.Idx%10 == 3 && len(res.Violations) == 0 {
		manifestTypeCheck(c, res)
	}
	if c.Idx < 3 {
		res.Sample = map[string]interface{}{"case": c.Idx, "config": desc, "expected_valid": want, "validate_error": fmt.Sprint(err), "perturbed_fields": changed}
	}
}

// manifestTypeCheck drives config.Manifest (NewManifest / UpdateConfig / Save / LoadManifest / GetConfig): a
// configuration enters the manifest only if it is valid, what Save stores is what LoadManifest returns, and a
// configuration that has become invalid - through UpdateConfig or through the *Config the manifest shares
// with its caller - is rejected by Save before anything is written.
func manifestTypeCheck(c *core.Ctx, res *core.Result) {
	r := c.Rand
	dir := filepath.Join(c.Dir, "mdb")
	os.MkdirAll(dir, 0755)
	cfg := config.NewDefaultConfig(dir)
	var changed []string
	for i, n := 0, r.Pick(3, 3, 2); i < n; i++ {
		perturb(r, cfg, &changed)
	}
	desc := cfgJSON(cfg)
	want := cfgValid(cfg)
	feat := map[string]string{"api": "Manifest", "expected_valid": fmt.Sprint(want)}
	before := snapshotDir(dir)
	m, err := config.NewManifest(dir, cfg)
	res.Count("manifest_type_cases", 1)
	if (err == nil) != want {
		res.Violate("validate_mismatch", fmt.Sprintf("NewManifest() error = %v but the documented constraints say valid=%v for %s", err, want, desc), feat)
		return
	}
	if !want {
		if d := diffSnap(before, snapshotDir(dir)); d != "" {
			res.Violate("invalid_config_side_effect", fmt.Sprintf("NewManifest rejected the configuration (%v) but %s", err, d), feat)
		}
		return
	}
	if err := m.Save(); err != nil {
		res.Violate("valid_config_not_stored", fmt.Sprintf("Manifest.Save failed for a configuration that passes validation: %v; config: %s", err, desc), feat)
		return
	}
	reload := func(step string, wantCfg *config.Config) bool {
		lm, err := config.LoadManifest(dir)
		if err != nil {
			res.Violate("valid_config_not_loaded", fmt.Sprintf("LoadManifest failed after %s: %v; config: %s", step, err, cfgJSON(wantCfg)), feat)
			return false
		}
		if !cfgEqual(lm.GetConfig(), wantCfg) {
			res.Violate("config_roundtrip_mismatch", fmt.Sprintf("after %s: stored %s\nloaded %s", step, cfgJSON(wantCfg), cfgJSON(lm.GetConfig())), feat)
			return false
		}
		res.Count("manifest_type_roundtrips", 1)
		return true
	}
	if !reload("NewManifest+Save", cfg) {
		return
	}
	// UpdateConfig: 1..3 updates, each accepted iff its result is valid; a rejected one changes nothing
	cur := cfg
	for u, n := 0, r.Range(1, 3); u < n; u++ {
		var jb []byte
		jb, _ = json.Marshal(cur)
		next := &config.Config{}
		json.Unmarshal(jb, next)
		rr := r.Derive(uint64(100 + u))
		rr2 := r.Derive(uint64(100 + u))
		var ch []string
		k := rr.Range(1, 2)
		for i := 0; i < k; i++ {
			perturb(rr, next, &ch)
		}
		uerr := m.UpdateConfig(func(c2 *config.Config) {
			var ch2 []string
			k2 := rr2.Range(1, 2)
			for i := 0; i < k2; i++ {
				perturb(rr2, c2, &ch2)
			}
		})
		nv := cfgValid(next)
		res.Count("manifest_type_updates", 1)
		if (uerr == nil) != nv {
			res.Violate("validate_mismatch", fmt.Sprintf("Manifest.UpdateConfig error = %v but the documented constraints say valid=%v for %s", uerr, nv, cfgJSON(next)), feat)
			return
		}
		if nv {
			cur = next
		}
		if !cfgEqual(m.GetConfig(), cur) {
			res.Violate("config_roundtrip_mismatch", fmt.Sprintf("after UpdateConfig (error %v) the manifest's current configuration is %s, expected %s", uerr, cfgJSON(m.GetConfig()), cfgJSON(cur)), feat)
			return
		}
		if err := m.Save(); err != nil {
			res.Violate("valid_config_not_stored", fmt.Sprintf("Manifest.Save failed after UpdateConfig (error %v) although the current configuration is valid: %v", uerr, err), feat)
			return
		}
		if !reload("UpdateConfig+Save", cur) {
			return
		}
	}
	// the current *Config is shared with the caller (GetConfig, the pointer given to NewManifest) and
	// Config.Update changes it in place without validation: Save is the last line of defence
	live := m.GetConfig()
	for try := 0; try < 40 && cfgValid(live); try++ {
		live.Update(func(c2 *config.Config) {
			var ch2 []string
			perturb(r, c2, &ch2)
		})
	}
	if cfgValid(live) {
		return
	}
	before = snapshotDir(dir)
	serr := m.Save()
	res.Count("manifest_type_invalid_saves", 1)
	if serr == nil {
		_, lerr := config.LoadManifest(dir)
		res.Violate("invalid_config_stored", fmt.Sprintf("Manifest.Save stored a current configuration that violates a documented constraint (changed in place through GetConfig().Update); LoadManifest afterwards: %v; config: %s", lerr, cfgJSON(live)), feat)
		return
	}
	if d := diffSnap(before, snapshotDir(dir)); d != "" {
		res.Violate("invalid_config_side_effect", fmt.Sprintf("Manifest.Save rejected the configuration (%v) but %s", serr, d), feat)
	}
}

func engineConfigCheck(c *core.Ctx, res *core.Result) {
	r := c.Rand
	dir := filepath.Join(c.Dir, "edb")
	kc := kv.Cfg{MemTableSize: []int64{300, 4096, 1 << 20}[r.Intn(3)], MaxMemTables: r.Range(1, 5), SyncMode: r.Intn(3), CompactSecs: 3600}
	e, err := kv.Open(dir, kc)
	if err != nil {
		res.Violate("open_error", "creating a database with a stored valid configuration failed: "+err.Error(), nil)
		return
	}
	for i := 0; i < 30; i++ {
		e.Put([]byte(fmt.Sprintf("key%02d", i)), bytes.Repeat([]byte("v"), 50))
	}
	e.FlushImMemTables()
	e.Close()
	stored, _ := os.ReadFile(filepath.Join(dir, "MANIFEST"))
	storedCfg, err := config.LoadConfigFromManifest(dir)
	if err != nil || storedCfg.MemTableSize != kc.MemTableSize || storedCfg.MaxMemTables != kc.MaxMemTables || int(storedCfg.WALSyncMode) != kc.SyncMode {
		res.Violate("engine_config_changed", fmt.Sprintf("after create+close the stored configuration is not the one the database was created with (err=%v)", err), nil)
		return
	}
	// reopen: manifest unchanged
	e, err = engine.NewEngineFacade(dir)
	if err != nil {
		res.Violate("open_error", "reopening failed: "+err.Error(), nil)
		return
	}
	e.Put([]byte("after-reopen"), []byte("x"))
	e.Close()
	now, _ := os.ReadFile(filepath.Join(dir, "MANIFEST"))
	if !bytes.Equal(stored, now) {
		res.Violate("engine_config_changed", "reopening a database rewrote its MANIFEST", nil)
		return
	}
	res.Count("engine_reopens", 1)
	// damaged manifests: every truncation length (sampled in quick), and invalid rewrites
	var variants [][]byte
	step := 1
	if !c.Thorough {
		step = 7
	}
	for l := 0; l < len(stored); l += step {
		variants = append(variants, stored[:l])
	}
	variants = append(variants, stored[:len(stored)-1])
	var m map[string]interface{}
	json.Unmarshal(stored, &m)
	for _, mut := range []func(map[string]interface{}){
		func(m map[string]interface{}) { m["memtable_size"] = 0 },
		func(m map[string]interface{}) { m["max_memtables"] = -1 },
		func(m map[string]interface{}) { m["compaction_ratio"] = 1.0 },
		func(m map[string]interface{}) { m["version"] = 0 },
		func(m map[string]interface{}) { m["wal_dir"] = "" },
		func(m map[string]interface{}) { m["tx_critical_threshold"] = 10 },
		func(m map[string]interface{}) { m["memtable_size"] = "big" },
	} {
		m2 := map[string]interface{}{}
		for k, v := range m {
			m2[k] = v
		}
		mut(m2)
		b, _ := json.Marshal(m2)
		variants = append(variants, b)
	}
	variants = append(variants, []byte("null"), []byte("{}"), []byte("[]"), []byte("\x00\x00\x00"))
	for _, v := range variants {
		os.WriteFile(filepath.Join(dir, "MANIFEST"), v, 0644)
		before := snapshotDir(dir)
		e, err := engine.NewEngineFacade(dir)
		res.Count("damaged_manifest_opens", 1)
		if err == nil {
			e.Close()
			d := string(v)
			if len(d) > 120 {
				d = d[:120] + "..."
			}
			res.Violate("damaged_manifest_accepted", fmt.Sprintf("NewEngineFacade opened a database whose stored configuration is unreadable/invalid (%d of %d bytes): %q", len(v), len(stored), d), map[string]string{"manifest_bytes": fmt.Sprint(len(v))})
			return
		}
		if d := diffSnap(before, snapshotDir(dir)); d != "" {
			res.Violate("failed_open_side_effect", fmt.Sprintf("NewEngineFacade failed (%v) on a damaged MANIFEST (%d bytes) but %s", err, len(v), d), nil)
			return
		}
	}
	// a MANIFEST that exists but cannot be read at all (not "no manifest yet"): a symbolic link loop, a directory
	mp := filepath.Join(dir, "MANIFEST")
	for _, form := range []string{"symlink_loop", "directory"} {
		os.RemoveAll(mp)
		switch form {
		case "symlink_loop":
			if err := os.Symlink("MANIFEST", mp); err != nil {
				continue
			}
		case "directory":
			os.Mkdir(mp, 0755)
		}
		before := snapshotDir(dir)
		e, err := engine.NewEngineFacade(dir)
		res.Count("unreadable_manifest_opens", 1)
		if err == nil {
			e.Close()
			res.Violate("damaged_manifest_accepted", fmt.Sprintf("NewEngineFacade opened an existing database whose MANIFEST exists but cannot be read (%s) - with default settings", form), map[string]string{"manifest_form": form})
			os.RemoveAll(mp)
			return
		}
		if d := diffSnap(before, snapshotDir(dir)); d != "" {
			res.Violate("failed_open_side_effect", fmt.Sprintf("NewEngineFacade failed (%v) on an unreadable MANIFEST (%s) but %s", err, form, d), nil)
			os.RemoveAll(mp)
			return
		}
	}
	os.RemoveAll(mp)
	os.WriteFile(mp, stored, 0644)
}
