package mon

import (
	"io"
	"net"
	"sync"
	"sync/atomic"
	"time"
)

// tcpProxy forwards loopback TCP connections and can cut or stall them.
type tcpProxy struct {
	lis     net.Listener
	target  string
	mu      sync.Mutex
	conns   []net.Conn
	cut     atomic.Bool // refuse/close everything
	stalled atomic.Bool // keep connections open but forward nothing
	closed  atomic.Bool
}

func newProxy(target string) (*tcpProxy, error) {
	l, err := net.Listen("tcp", "127.0.0.1:0")
	if err != nil {
		return nil, err
	}
	p := &tcpProxy{lis: l, target: target}
	go p.accept()
	return p, nil
}

func (p *tcpProxy) Addr() string { return p.lis.Addr().String() }

func (p *tcpProxy) accept() {
	for {
		c, err := p.lis.Accept()
		if err != nil {
			return
		}
		if p.cut.Load() {
			c.Close()
			continue
		}
		up, err := net.DialTimeout("tcp", p.target, 2*time.Second)
		if err != nil {
			c.Close()
			continue
		}
		p.mu.Lock()
		p.conns = append(p.conns, c, up)
		p.mu.Unlock()
		go p.pipe(c, up)
		go p.pipe(up, c)
	}
}

func (p *tcpProxy) pipe(dst, src net.Conn) {
	buf := make([]byte, 32*1024)
	for {
		n, err := src.Read(buf)
		if n > 0 {
			for p.stalled.Load() && !p.closed.Load() && !p.cut.Load() {
				time.Sleep(5 * time.Millisecond)
			}
			if _, werr := dst.Write(buf[:n]); werr != nil {
				break
			}
		}
		if err != nil {
			if err != io.EOF {
			}
			break
		}
	}
	dst.Close()
	src.Close()
}

// Cut closes every connection and refuses new ones until Restore.
func (p *tcpProxy) Cut() {
	p.cut.Store(true)
	p.mu.Lock()
	for _, c := range p.conns {
		c.Close()
	}
	p.conns = nil
	p.mu.Unlock()
}

func (p *tcpProxy) Restore() { p.cut.Store(false); p.stalled.Store(false) }
func (p *tcpProxy) Stall()   { p.stalled.Store(true) }

func (p *tcpProxy) Close() {
	p.closed.Store(true)
	p.lis.Close()
	p.Cut()
}

func netDial(addr string) (net.Conn, error) { return net.DialTimeout("tcp", addr, time.Second) }
