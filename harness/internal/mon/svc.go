package mon

import (
	"context"
	"io"
	"net"
	"time"

	"github.com/KevoDB/kevo/pkg/engine"
	grpcservice "github.com/KevoDB/kevo/pkg/grpc/service"
	"github.com/KevoDB/kevo/pkg/transaction"
	pb "github.com/KevoDB/kevo/proto/kevo"
	"google.golang.org/grpc"
	"google.golang.org/grpc/credentials/insecure"
	"google.golang.org/grpc/test/bufconn"
)

// svcEnv is an in-process gRPC server with the real service, registry and engine.
type svcEnv struct {
	Eng    *engine.EngineFacade
	Reg    transaction.Registry
	Srv    *grpc.Server
	Conn   *grpc.ClientConn
	Client pb.KevoServiceClient
	Svc    *grpcservice.KevoServiceServer
}

const maxMsg = 64 << 20

func startSvc(eng *engine.EngineFacade, reg transaction.Registry, info grpcservice.ReplicationInfoProvider) (*svcEnv, error) {
	lis := bufconn.Listen(4 << 20)
	// raise the transport limits so that the service's own limits are what is exercised
	srv := grpc.NewServer(grpc.MaxRecvMsgSize(maxMsg), grpc.MaxSendMsgSize(maxMsg))
	svc := grpcservice.NewKevoServiceServer(eng, reg, info)
	pb.RegisterKevoServiceServer(srv, svc)
	go srv.Serve(lis)
	conn, err := grpc.NewClient("passthrough:///bufnet",
		grpc.WithContextDialer(func(ctx context.Context, _ string) (net.Conn, error) { return lis.DialContext(ctx) }),
		grpc.WithTransportCredentials(insecure.NewCredentials()),
		grpc.WithDefaultCallOptions(grpc.MaxCallRecvMsgSize(maxMsg), grpc.MaxCallSendMsgSize(maxMsg)))
	if err != nil {
		srv.Stop()
		return nil, err
	}
	return &svcEnv{Eng: eng, Reg: reg, Srv: srv, Conn: conn, Client: pb.NewKevoServiceClient(conn), Svc: svc}, nil
}

func (s *svcEnv) Stop() {
	s.Conn.Close()
	s.Srv.Stop()
}

func ctxT(d time.Duration) (context.Context, context.CancelFunc) {
	return context.WithTimeout(context.Background(), d)
}

type scanRow struct{ K, V []byte }

func recvScan(st grpc.ServerStreamingClient[pb.ScanResponse]) ([]scanRow, error) {
	var out []scanRow
	for {
		m, err := st.Recv()
		if err == io.EOF {
			return out, nil
		}
		if err != nil {
			return out, err
		}
		out = append(out, scanRow{m.Key, m.Value})
	}
}

func recvTxScan(st grpc.ServerStreamingClient[pb.TxScanResponse]) ([]scanRow, error) {
	var out []scanRow
	for {
		m, err := st.Recv()
		if err == io.EOF {
			return out, nil
		}
		if err != nil {
			return out, err
		}
		out = append(out, scanRow{m.Key, m.Value})
	}
}

// lockProbe: a fresh read-write transaction must begin and finish promptly.
func lockProbe(eng *engine.EngineFacade, d time.Duration) bool {
	done := make(chan bool, 1)
	go func() {
		tx, err := eng.GetTransactionManager().BeginTransaction(false)
		if err != nil {
			done <- false
			return
		}
		tx.Rollback()
		done <- true
	}()
	select {
	case ok := <-done:
		return ok
	case <-time.After(d):
		return false
	}
}
