package mon

import (
	"bytes"
	"fmt"
	"sync"
	"sync/atomic"
	"time"

	"github.com/KevoDB/kevo/pkg/common/iterator"
	"github.com/KevoDB/kevo/pkg/common/iterator/filtered"
	"github.com/KevoDB/kevo/pkg/verifhook"

	"verif/internal/core"
	"verif/internal/kv"
)

func init() {
	core.Register(&core.Monitor{
		ID:               "C05",
		Level:            "exploration",
		RaceThoroughOnly: true,
		Rule: "data sets built by generated programs under configurations that spread versions over active/immutable memtables, several SSTables and multi-block SSTables (log retired so that " +
			"tables are really read); at each checkpoint a battery of queries is compared with the sorted model: full scan, range scans with bounds from {nil, existing key, key+-epsilon, before " +
			"first, after last, start>=end}, Seek(t)+Next run and SeekToLast on full and bounded iterators (fresh, and already positioned by SeekToFirst + 0-3 Next), SeekToLast, prefix/suffix/prefix+suffix filters as the service builds them, and the same through " +
			"read-write transaction iterators with uncommitted puts/deletes overlaid. Every 5th case is concurrent: scanners run while writers touch a disjoint key class and a maintenance goroutine " +
			"flushes/compacts; each scan must be strictly ascending, duplicate-free and contain every stable key with its value. " +
			"distinct = hash(config, op kinds); non-trivial = >= 20 scan queries were checked after at least one flush/retire",
		Assumptions: []string{"deletion markers surfaced by engine iterators are legal (consumers skip them, as the service does); a live key surfaced as a marker is not",
			"SeekToLast may land on a deletion marker above the greatest live key"},
		NumCases: func(tier string) int {
			if tier == "thorough" {
				return 2500
			}
			return 200
		},
		Run: runC05,
	})
}

// bound candidates around the key population
func genBound(r *core.Rand, keys []string) []byte {
	if len(keys) == 0 || r.Chance(8) {
		return []byte{byte(r.Intn(256))}
	}
	k := []byte(keys[r.Intn(len(keys))])
	switch r.Pick(5, 3, 3, 1, 1, 1) {
	case 0:
		return k
	case 1:
		return append(append([]byte{}, k...), 0x00)
	case 2:
		p := append([]byte{}, k...)
		if p[len(p)-1] > 0 {
			p[len(p)-1]--
			return append(p, 0xff)
		}
		if len(p) > 1 {
			return p[:len(p)-1]
		}
		return p
	case 3:
		return []byte{0x00}
	case 4:
		return bytes.Repeat([]byte{0xff}, 8)
	}
	return k[:1+r.Intn(len(k))]
}

// prePosition leaves the iterator, in half of the calls, somewhere inside its run before the Seek under test:
// where a Seek lands must not depend on where the iterator stood.
func prePosition(r *core.Rand, it iterator.Iterator) string {
	if it == nil || r.Bool() {
		return ""
	}
	it.SeekToFirst()
	n := r.Intn(4)
	for i := 0; i < n && it.Valid(); i++ {
		it.Next()
	}
	return fmt.Sprintf("SeekToFirst + %d Next, then ", n)
}

func scanBattery(x *kv.Exec, getIter func() (iterator.Iterator, error), getRange func(a, b []byte) (iterator.Iterator, error), m *kv.Model, tag string, nq int) {
	r := x.R
	res := x.Res
	keys := m.EverSorted()
	fail := func(msg string) {
		x.Failed = true
		res.Violate("scan_mismatch", fmt.Sprintf("%s %s\nconfig: %s\nprogram so far:\n%s", tag, msg, x.Cfg, tail(x.Trace, 150)),
			map[string]string{"via": tag, "uses_compact_range": fmt.Sprint(x.UsedCRange)})
	}
	// full scan
	it, err := getIter()
	if err != nil {
		fail("GetIterator: " + err.Error())
		return
	}
	it.SeekToFirst()
	res.Count("scan_queries", 1)
	if msg := kv.CheckScan(kv.Drain(it, 1<<20), m, nil, nil, nil); msg != "" {
		fail("full scan: " + msg)
		return
	}
	for q := 0; q < nq && !x.Failed; q++ {
		res.Count("scan_queries", 1)
		switch r.Pick(5, 5, 3, 3, 3) {
		case 0: // range scan
			a, b := genBound(r, keys), genBound(r, keys)
			if r.Chance(10) {
				a = nil
			}
			if r.Chance(10) {
				b = nil
			}
			it, err := getRange(a, b)
			if err != nil {
				fail("GetRangeIterator: " + err.Error())
				return
			}
			it.SeekToFirst()
			if msg := kv.CheckScan(kv.Drain(it, 1<<20), m, a, b, nil); msg != "" {
				fail(fmt.Sprintf("range scan [%s,%s): %s", kv.Q(a), kv.Q(b), msg))
			}
		case 1: // Seek on the full iterator
			t := genBound(r, keys)
			it, _ := getIter()
			pre := prePosition(r, it)
			it.Seek(t)
			if msg := kv.CheckScan(kv.Drain(it, 1<<20), m, nil, nil, t); msg != "" {
				fail(fmt.Sprintf("%sSeek(%s) + Next run: %s", pre, kv.Q(t), msg))
			}
		case 2: // Seek inside a range
			a, b, t := genBound(r, keys), genBound(r, keys), genBound(r, keys)
			it, _ := getRange(a, b)
			pre := prePosition(r, it)
			it.Seek(t)
			from := t
			if bytes.Compare(a, t) > 0 {
				from = a
			}
			if msg := kv.CheckScan(kv.Drain(it, 1<<20), m, a, b, from); msg != "" {
				fail(fmt.Sprintf("range [%s,%s) %sSeek(%s) + Next run: %s", kv.Q(a), kv.Q(b), pre, kv.Q(t), msg))
			}
		case 3: // SeekToLast, full or bounded
			var a, b []byte
			var it iterator.Iterator
			if r.Bool() {
				it, _ = getIter()
			} else {
				a, b = genBound(r, keys), genBound(r, keys)
				if r.Chance(30) {
					a = nil
				}
				it, _ = getRange(a, b)
			}
			pre := prePosition(r, it)
			it.SeekToLast()
			var lastLive []byte
			for _, k := range m.Sorted() {
				kb := []byte(k)
				if (a == nil || bytes.Compare(kb, a) >= 0) && (b == nil || bytes.Compare(kb, b) < 0) {
					lastLive = kb
				}
			}
			what := fmt.Sprintf("%sSeekToLast on [%s,%s)", pre, kv.Q(a), kv.Q(b))
			if !it.Valid() {
				if lastLive != nil {
					fail(fmt.Sprintf("%s is invalid, greatest live key is %s", what, kv.Q(lastLive)))
				}
				break
			}
			k := append([]byte{}, it.Key()...)
			if (a != nil && bytes.Compare(k, a) < 0) || (b != nil && bytes.Compare(k, b) >= 0) {
				fail(fmt.Sprintf("%s is at %s, outside the bounds", what, kv.Q(k)))
				break
			}
			if it.IsTombstone() {
				if _, live := m.M[string(k)]; live {
					fail(fmt.Sprintf("%s: live key %s delivered as deletion marker", what, kv.Q(k)))
				} else if lastLive != nil && bytes.Compare(k, lastLive) < 0 {
					fail(fmt.Sprintf("%s is at deletion marker %s, below the greatest live key %s", what, kv.Q(k), kv.Q(lastLive)))
				}
				break
			}
			if lastLive == nil || !bytes.Equal(k, lastLive) {
				fail(fmt.Sprintf("%s is at %s, greatest live key is %s", what, kv.Q(k), kv.Q(lastLive)))
			} else if !bytes.Equal(it.Value(), m.M[string(k)]) {
				fail(fmt.Sprintf("%s: key %s has value %s, latest write is %s", what, kv.Q(k), kv.Q(it.Value()), kv.Q(m.M[string(k)])))
			}
		case 4: // prefix / suffix filters as the service builds them
			var pre, suf []byte
			if len(keys) > 0 {
				k := []byte(keys[r.Intn(len(keys))])
				if r.Chance(70) {
					pre = k[:r.Range(1, len(k))]
					if len(pre) > 6 {
						pre = pre[:r.Range(1, 6)]
					}
				}
				if pre == nil || r.Chance(40) {
					suf = k[len(k)-r.Range(1, min(len(k), 2)):]
				}
			} else {
				pre = []byte("k")
			}
			base, _ := getIter()
			var it iterator.Iterator = base
			if len(pre) > 0 {
				it = filtered.NewPrefixIterator(it, pre)
			}
			if len(suf) > 0 {
				it = filtered.NewSuffixIterator(it, suf)
			}
			it.SeekToFirst()
			msg := kv.CheckScanF(kv.Drain(it, 1<<20), m, func(k []byte) bool {
				return (len(pre) == 0 || bytes.HasPrefix(k, pre)) && (len(suf) == 0 || bytes.HasSuffix(k, suf))
			})
			if msg != "" {
				fail(fmt.Sprintf("filtered scan prefix=%s suffix=%s: %s", kv.Q(pre), kv.Q(suf), msg))
			}
		}
	}
}

func tail(t []string, n int) string {
	if len(t) > n {
		t = t[len(t)-n:]
	}
	s := ""
	for _, l := range t {
		s += l + "\n"
	}
	return s
}

func c05ScanFn(x *kv.Exec, step int) {
	r := x.R
	nq := 12
	// engine iterators
	scanBattery(x, x.Eng.GetIterator, x.Eng.GetRangeIterator, x.Model, "engine", nq)
	if x.Failed {
		return
	}
	// read-only transaction iterators (what the service's Scan uses)
	if r.Chance(50) {
		tx, err := x.Eng.BeginTransaction(true)
		if err == nil {
			scanBattery(x, func() (iterator.Iterator, error) { return tx.NewIterator(), nil },
				func(a, b []byte) (iterator.Iterator, error) { return tx.NewRangeIterator(a, b), nil }, x.Model, "read-only tx", 6)
			tx.Rollback()
		}
	}
	if x.Failed {
		return
	}
	// read-write transaction with its own uncommitted writes and deletes overlaid
	tx, err := x.Eng.BeginTransaction(false)
	if err != nil {
		return
	}
	overlay := x.Model.Clone()
	keys := x.Model.EverSorted()
	var desc []string
	for i, n := 0, r.Range(1, 8); i < n; i++ {
		var k []byte
		if len(keys) > 0 && r.Chance(70) {
			k = []byte(keys[r.Intn(len(keys))])
		} else {
			k = genBound(r, keys)
		}
		if len(k) == 0 {
			continue
		}
		if r.Chance(40) {
			tx.Delete(k)
			overlay.Del(k)
			desc = append(desc, "del("+kv.Q(k)+")")
		} else {
			v := []byte(fmt.Sprintf("txv%d.%d", step, i))
			if r.Chance(10) {
				v = []byte{}
			}
			tx.Put(k, v)
			overlay.Put(k, v)
			desc = append(desc, "put("+kv.Q(k)+","+kv.Q(v)+")")
		}
	}
	scanBattery(x, func() (iterator.Iterator, error) { return tx.NewIterator(), nil },
		func(a, b []byte) (iterator.Iterator, error) { return tx.NewRangeIterator(a, b), nil }, overlay, fmt.Sprintf("read-write tx with uncommitted %v:", desc), 8)
	tx.Rollback()
}

func runC05(c *core.Ctx, res *core.Result) {
	if c.Idx%5 == 4 {
		runC05Concurrent(c, res)
		return
	}
	r := c.Rand
	cfg := kv.GenCfg(r)
	if r.Chance(60) {
		cfg.MemTableSize = []int64{300, 1024, 16 * 1024}[r.Intn(3)]
	}
	cfg.CompactSecs = 3600
	nops := r.Range(30, 90)
	if c.Thorough {
		nops = r.Range(30, 200)
	}
	o := kv.GenOpts{NOps: nops, NKeys: r.Range(3, 30), BigValues: r.Chance(15), Maintenance: r.Range(6, 16),
		CompactRange: r.Chance(15), Retire: true, Reopen: true, Tx: true, Batch: true, Scans: true}
	ks := kv.GenKeySpace(r, o.NKeys)
	if r.Chance(25) {
		// many medium values: multi-block tables once flushed
		o.NKeys = 60
		ks = kv.GenKeySpace(r, o.NKeys)
	}
	prog := kv.GenProgram(r, ks, fmt.Sprintf("c%d", c.Idx), o)
	x, err := kv.NewExec(c.Dir+"/db", cfg, res, r)
	if err != nil {
		res.Violate("open_error", err.Error(), nil)
		return
	}
	defer x.Close()
	x.ScanFn = c05ScanFn
	x.CheckEvery = 15
	x.Run(prog)
	kinds := ""
	maint := 0
	for _, op := range prog {
		kinds += op.Kind[:2]
		switch op.Kind {
		case "flush", "retire":
			maint++
		}
	}
	res.Sig = core.Sig(cfg.String(), kinds)
	res.Nontrivial = maint > 0 && res.Counters["scan_queries"] >= 20
	if c.Idx < 2 {
		var s []string
		for i, op := range prog {
			if i >= 20 {
				break
			}
			s = append(s, op.String())
		}
		res.Sample = map[string]interface{}{"case": c.Idx, "config": cfg, "program_head": s, "scan_queries": res.Counters["scan_queries"]}
	}
}

// runC05Concurrent: scans while other clients write a disjoint key class and maintenance runs.
func runC05Concurrent(c *core.Ctx, res *core.Result) {
	r := c.Rand
	cfg := kv.Cfg{MemTableSize: []int64{2048, 4096, 16384, 65536}[r.Intn(4)], MaxMemTables: r.Range(1, 4), SyncMode: 0, CompactSecs: 1}
	e, err := kv.Open(c.Dir+"/db", cfg)
	if err != nil {
		res.Violate("open_error", err.Error(), nil)
		return
	}
	defer e.Close()
	// stable keys: written before the scans start, never written again
	stable := kv.NewModel()
	nst := r.Range(5, 120)
	for i := 0; i < nst; i++ {
		k := []byte(fmt.Sprintf("s%04d", r.Intn(5000)))
		v := []byte(fmt.Sprintf("stable-%d-%d", c.Idx, i))
		if r.Chance(15) {
			if e.Delete(k) == nil {
				stable.Del(k)
			}
		} else {
			if err := e.Put(k, v); err == nil {
				stable.Put(k, v)
			}
		}
		if r.Chance(5) {
			e.FlushImMemTables()
		}
	}
	// yields at the hook sites (also between the level links of a skiplist insert) widen the windows
	// in which a half-finished write is reachable
	verifhook.SetYield(r.U64(), int64([]int{0, 100, 400}[r.Intn(3)]))
	defer verifhook.SetYield(0, 0)
	var stop atomic.Bool
	var wg sync.WaitGroup
	var mu sync.Mutex
	var first string
	report := func(s string) {
		mu.Lock()
		if first == "" {
			first = s
		}
		mu.Unlock()
		stop.Store(true)
	}
	var writes, scans atomic.Int64
	nw := r.Range(1, 4)
	for w := 0; w < nw; w++ {
		wg.Add(1)
		rr := r.Derive(uint64(50 + w))
		go func(w int) {
			defer wg.Done()
			for i := 0; i < 1200 && !stop.Load(); i++ {
				// volatile keys interleave with the stable ones in byte order ("s0123" < "s0123v..." < "s0124")
				k := []byte(fmt.Sprintf("s%04dv%d", rr.Intn(5000), w))
				if rr.Chance(30) {
					e.Delete(k)
				} else {
					e.Put(k, bytes.Repeat([]byte{byte('a' + w)}, rr.Range(1, 300)))
				}
				writes.Add(1)
				if i%8 == 0 {
					time.Sleep(200 * time.Microsecond)
				}
			}
		}(w)
	}
	wg.Add(1)
	mrr := r.Derive(77)
	go func() {
		defer wg.Done()
		rr := mrr
		for !stop.Load() {
			if rr.Bool() {
				e.FlushImMemTables()
			} else {
				e.TriggerCompaction()
			}
			time.Sleep(time.Duration(rr.Range(1, 8)) * time.Millisecond)
		}
	}()
	isStable := func(k []byte) bool { return len(k) == 5 }
	nsc := r.Range(2, 4)
	var swg sync.WaitGroup
	for s := 0; s < nsc; s++ {
		swg.Add(1)
		rr := r.Derive(uint64(90 + s))
		go func() {
			defer swg.Done()
			for i := 0; i < 12 && !stop.Load(); i++ {
				var it iterator.Iterator
				var a, b []byte
				var err error
				if rr.Bool() {
					it, err = e.GetIterator()
				} else {
					a = []byte(fmt.Sprintf("s%04d", rr.Intn(5000)))
					b = []byte(fmt.Sprintf("s%04d", rr.Intn(5000)))
					it, err = e.GetRangeIterator(a, b)
				}
				if err != nil {
					report("iterator: " + err.Error())
					return
				}
				it.SeekToFirst()
				all := kv.Drain(it, 1<<22)
				scans.Add(1)
				var prev []byte
				var st []kv.KVPair
				for j, p := range all {
					if j > 0 && bytes.Compare(p.K, prev) <= 0 {
						report(fmt.Sprintf("concurrent scan [%s,%s) not strictly ascending: %s after %s", kv.Q(a), kv.Q(b), kv.Q(p.K), kv.Q(prev)))
						return
					}
					prev = p.K
					if isStable(p.K) {
						st = append(st, p)
					}
				}
				if msg := kv.CheckScan(st, stable, a, b, nil); msg != "" {
					report(fmt.Sprintf("concurrent scan [%s,%s), stable keys: %s", kv.Q(a), kv.Q(b), msg))
					return
				}
			}
		}()
	}
	swg.Wait()
	stop.Store(true)
	wg.Wait()
	if first != "" {
		res.Violate("concurrent_scan_mismatch", fmt.Sprintf("%s\nconfig %s, %d stable keys, %d writers", first, cfg, nst, nw), map[string]string{"mode": "concurrent"})
		return
	}
	res.Count("concurrent_scans", scans.Load())
	res.Count("concurrent_writes", writes.Load())
	res.Sig = core.Sig("conc", cfg.String(), nst, nw, nsc)
	res.Nontrivial = scans.Load() > 0 && writes.Load() > 0
	if c.Idx == 4 {
		res.Sample = map[string]interface{}{"case": c.Idx, "mode": "concurrent", "config": cfg, "stable_keys": nst, "writers": nw, "scanners": nsc, "scans": scans.Load(), "writes_during_scans": writes.Load()}
	}
}
