package mon

import (
	"bytes"
	"fmt"
	"os"
	"os/exec"
	"path/filepath"
	"sort"
	"strconv"
	"strings"
	"sync"
	"sync/atomic"
	"time"

	"github.com/KevoDB/kevo/pkg/engine"
	"github.com/KevoDB/kevo/pkg/verifhook"

	"verif/internal/core"
	"verif/internal/kv"
)

func init() {
	core.Register(&core.Monitor{
		ID:    "C03",
		Level: "fault_enumeration",
		Rule: "four case kinds. (a) crash atomicity (half of the cases): C02's kill enumeration restricted to the hook sites inside AppendBatch/ApplyBatch/Commit, programs dominated by " +
			"transactions of 1..700 operations and up to ~150KB (beyond the 64KB log buffer), prefix oracle with whole transactions as units. (b) concurrent observers: writers run read-write " +
			"transactions that read a counter and write counter+1 to every key of a group; plain clients read two group keys in a known order (versions must not decrease along the read order), " +
			"read-only transactions read and scan the whole group (all equal); yields injected between the memtable inserts of a batch. (c) torn final write: after a run ending in a large commit " +
			"(immediate sync, byte range of the commit observed by stat) the newest log file is cut at offsets inside that range; the reopened state must be the pre- or the post-commit state. " +
			"(d) no trace of failure: commit after the engine was closed, rollback, buffer reuse; state before == state after, also after reopen. " +
			"(e) every 12th case: commits that fail because of an injected I/O error (strace -e inject on fsync/write of the database files, synchronous logging, child process): the scan before close and the " +
			"scan after a reopen must equal the model of the acknowledged units only. " +
			"distinct = (kind, config, program/sites or offsets); non-trivial = a kill fired inside a commit / >= 1 commit overlapped an observer / >= 1 cut fell strictly inside a batch",
		Assumptions: []string{"a plain scan (outside a transaction) that runs concurrently with a commit is not covered by the statement ('no later scan'); transactional scans are",
			"torn writes are simulated by truncating the newest log file of a cleanly stopped database"},
		NumCases: func(tier string) int {
			if tier == "thorough" {
				return 1200
			}
			return 120
		},
		Run:         runC03,
		CaseTimeout: 10 * time.Minute,
	})
}

func commitSite(s string) bool {
	return strings.HasPrefix(s, "wal.batch.") || strings.HasPrefix(s, "storage.batch.") || strings.HasPrefix(s, "tx.commit.") ||
		strings.HasPrefix(s, "wal.sync.") || s == "wal.frag.after_first"
}

func runC03(c *core.Ctx, res *core.Result) {
	if c.Idx%12 == 7 {
		// a commit that fails because of an I/O error (strace -e inject) must leave no trace either
		ioFaultCase(c, res, true)
		return
	}
	switch c.Idx % 4 {
	case 0, 1:
		c03Crash(c, res)
	case 2:
		c03Observers(c, res)
	case 3:
		c03Torn(c, res)
	}
}

func c03Crash(c *core.Ctx, res *core.Result) {
	crashCaseOpts(c, res, commitSite, func(o *kv.GenOpts) {
		o.TxWeight = 40
		o.BigTxPct = 35
		o.Maintenance = 2
		o.CompactRange = false
	})
}

// ---------------------------------------------------------------------------

func c03Observers(c *core.Ctx, res *core.Result) {
	r := c.Rand
	cfg := kv.Cfg{MemTableSize: []int64{300, 2048, 16384, 1 << 20}[r.Intn(4)], MaxMemTables: r.Range(1, 4), SyncMode: 0, CompactSecs: 3600}
	e, err := kv.Open(c.Dir+"/db", cfg)
	if err != nil {
		res.Violate("open_error", err.Error(), nil)
		return
	}
	defer e.Close()
	G := r.Range(2, 40)
	if r.Chance(20) {
		G = r.Range(200, 1500)
	}
	keys := make([][]byte, G)
	for i := range keys {
		keys[i] = []byte(fmt.Sprintf("g%05d", i))
	}
	pad := bytes.Repeat([]byte("."), r.Range(0, 200))
	enc := func(v int) []byte { return append([]byte(fmt.Sprintf("%010d", v)), pad...) }
	dec := func(b []byte, err error) int {
		if err != nil || len(b) < 10 {
			return 0
		}
		n, _ := strconv.Atoi(string(b[:10]))
		return n
	}
	ypm := []int{0, 100, 400, 900}[r.Intn(4)]
	if G > 100 {
		ypm = []int{0, 20}[r.Intn(2)] // thousands of inserts per commit: keep the run short
	}
	verifhook.SetYield(r.U64(), int64(ypm))
	defer verifhook.SetYield(0, 0)
	var stop atomic.Bool
	var mu sync.Mutex
	first := ""
	report := func(s string) {
		mu.Lock()
		if first == "" {
			first = s
		}
		mu.Unlock()
		stop.Store(true)
	}
	var commits, pairReads, roTx atomic.Int64
	var wg sync.WaitGroup
	nw := r.Range(1, 3)
	total := 150
	if G > 100 {
		total = 40
	}
	for w := 0; w < nw; w++ {
		wg.Add(1)
		rr := r.Derive(uint64(10 + w))
		go func() {
			defer wg.Done()
			for i := 0; i < total && !stop.Load(); i++ {
				tx, err := e.BeginTransaction(false)
				if err != nil {
					report("BeginTransaction: " + err.Error())
					return
				}
				cur := dec(tx.Get(keys[0]))
				for _, k := range keys {
					tx.Put(k, enc(cur+1))
				}
				if rr.Chance(15) {
					tx.Rollback()
				} else if err := tx.Commit(); kv.IsEngineBusy(err) {
					continue // the engine gave the commit up (log in rotation): a failed transaction, must leave no trace
				} else if err != nil {
					report("Commit: " + err.Error())
					return
				} else {
					commits.Add(1)
				}
			}
		}()
	}
	nr := r.Range(2, 5)
	var rwg sync.WaitGroup
	for q := 0; q < nr; q++ {
		rwg.Add(1)
		rr := r.Derive(uint64(30 + q))
		go func() {
			defer rwg.Done()
			for !stop.Load() {
				switch rr.Intn(3) {
				case 0, 1: // plain gets in a known order
					a := rr.Intn(G)
					b := rr.Intn(G)
					va := dec(e.Get(keys[a]))
					vb := dec(e.Get(keys[b]))
					pairReads.Add(1)
					if vb < va {
						report(fmt.Sprintf("a plain client read %s at version %d and then %s at the older version %d: it observed a strict subset of a committed transaction (group of %d keys written together)", keys[a], va, keys[b], vb, G))
						return
					}
				case 2: // read-only transaction: gets and a scan, all equal
					tx, err := e.BeginTransaction(true)
					if err != nil {
						report("BeginTransaction(ro): " + err.Error())
						return
					}
					v0 := dec(tx.Get(keys[rr.Intn(G)]))
					it := tx.NewIterator()
					n := 0
					for it.SeekToFirst(); it.Valid(); it.Next() {
						if it.IsTombstone() {
							continue
						}
						n++
						if v := dec(it.Value(), nil); v != v0 {
							tx.Rollback()
							report(fmt.Sprintf("a read-only transaction read version %d by get and saw %s at version %d in its scan", v0, it.Key(), v))
							return
						}
					}
					if v0 > 0 && n != G {
						tx.Rollback()
						report(fmt.Sprintf("a read-only transaction scanned %d of the %d group keys at version %d", n, G, v0))
						return
					}
					v1 := dec(tx.Get(keys[rr.Intn(G)]))
					tx.Rollback()
					roTx.Add(1)
					if v1 != v0 {
						report(fmt.Sprintf("a read-only transaction read version %d and later version %d", v0, v1))
						return
					}
				}
			}
		}()
	}
	wg.Wait()
	stop.Store(true)
	rwg.Wait()
	if first != "" {
		res.Violate("partial_commit_observed", fmt.Sprintf("%s\nconfig %s, %d writers, %d readers", first, cfg, nw, nr), map[string]string{"kind": "observers"})
		return
	}
	res.Count("observer_commits", commits.Load())
	res.Count("observer_pair_reads", pairReads.Load())
	res.Count("observer_ro_transactions", roTx.Load())
	res.Sig = core.Sig("obs", cfg.String(), G, nw, nr)
	res.Nontrivial = commits.Load() > 0 && pairReads.Load() > 0
	if c.Idx == 2 {
		res.Sample = map[string]interface{}{"case": c.Idx, "kind": "concurrent observers", "config": cfg, "group_keys": G, "writers": nw, "readers": nr,
			"commits": commits.Load(), "ordered_pair_reads": pairReads.Load(), "read_only_transactions": roTx.Load()}
	}
}

// ---------------------------------------------------------------------------

func copyDir(src, dst string) error {
	return exec.Command("cp", "-a", src, dst).Run()
}

func c03Torn(c *core.Ctx, res *core.Result) {
	r := c.Rand
	dir := c.Dir + "/db"
	cfg := kv.Cfg{MemTableSize: 32 << 20, MaxMemTables: 4, SyncMode: 2, CompactSecs: 3600}
	e, err := kv.Open(dir, cfg)
	if err != nil {
		res.Violate("open_error", err.Error(), nil)
		return
	}
	model := kv.NewModel()
	nk := r.Range(3, 12)
	key := func(i int) []byte { return []byte(fmt.Sprintf("t%03d", i)) }
	for i := 0; i < r.Range(3, 20); i++ {
		k, v := key(r.Intn(nk)), []byte(fmt.Sprintf("pre-%d-%d", c.Idx, i))
		if r.Chance(25) {
			if e.Delete(k) == nil {
				model.Del(k)
			}
		} else if e.Put(k, v) == nil {
			model.Put(k, v)
		}
	}
	// (d) no trace of failure / rollback
	{
		tx, _ := e.BeginTransaction(false)
		buf := []byte("rolled-back-value")
		tx.Put(key(0), buf)
		tx.Delete(key(1))
		tx.Rollback()
		if err := tx.Commit(); err == nil {
			res.Violate("finished_tx_reusable", "Commit after Rollback succeeded", nil)
		}
		for i := 0; i < nk; i++ {
			got, gerr := e.Get(key(i))
			want, live := model.Get(key(i))
			if (gerr == nil) != live || (live && !bytes.Equal(got, want)) {
				res.Violate("rollback_left_trace", fmt.Sprintf("after a rolled-back transaction key %s reads %s (err %v), expected %s live=%v", key(i), kv.Q(got), gerr, kv.Q(want), live), nil)
				e.Close()
				return
			}
		}
	}
	walFiles := func() []string {
		f, _ := filepath.Glob(filepath.Join(dir, "wal", "*.wal"))
		sort.Strings(f)
		return f
	}
	fs := walFiles()
	if len(fs) == 0 {
		res.Inconclusive = "no log file"
		e.Close()
		return
	}
	newest := fs[len(fs)-1]
	st0, _ := os.Stat(newest)
	// the final commit
	post := model.Clone()
	tx, _ := e.BeginTransaction(false)
	n := r.Range(2, 30)
	if r.Chance(30) {
		n = r.Range(100, 600)
	}
	big := r.Chance(25)
	var valBuf []byte
	for i := 0; i < n; i++ {
		k := key(r.Intn(nk))
		if n > 40 {
			k = []byte(fmt.Sprintf("t%03d~%04d", r.Intn(nk), i))
		}
		if r.Chance(20) {
			kb := append([]byte{}, k...)
			tx.Delete(kb)
			for j := range kb {
				kb[j] = 'X'
			}
			post.Del(k)
		} else {
			l := r.Range(5, 300)
			if big && i < 3 {
				l = r.Range(20000, 40000)
			}
			// the caller reuses one buffer for every value (capture at call time)
			valBuf = append(valBuf[:0], []byte(fmt.Sprintf("fin-%d-%d|", c.Idx, i))...)
			for len(valBuf) < l {
				valBuf = append(valBuf, byte('a'+len(valBuf)%26))
			}
			want := append([]byte{}, valBuf...)
			tx.Put(k, valBuf)
			post.Put(k, want)
		}
	}
	for j := range valBuf {
		valBuf[j] = '!'
	}
	if err := tx.Commit(); kv.IsEngineBusy(err) {
		res.Inconclusive = "the engine refused the final commit (log in rotation)"
		e.Close()
		return
	} else if err != nil {
		res.Violate("commit_error", "final commit failed: "+err.Error(), nil)
		e.Close()
		return
	}
	fs2 := walFiles()
	if len(fs2) != len(fs) {
		res.Inconclusive = "log rotated during the final commit"
		e.Close()
		return
	}
	st1, _ := os.Stat(newest)
	e.Close()
	lo, hi := st0.Size(), st1.Size()
	if hi <= lo {
		res.Inconclusive = "final commit did not grow the newest log file"
		return
	}
	// (d) commit after close leaves no trace
	{
		e2, err := engine.NewEngineFacade(dir)
		if err != nil {
			res.Violate("open_error", "reopen: "+err.Error(), nil)
			return
		}
		tx, _ := e2.BeginTransaction(false)
		tx.Put(key(0), []byte("written-after-close"))
		e2.Close()
		cerr := tx.Commit()
		e3, err := engine.NewEngineFacade(dir)
		if err != nil {
			res.Violate("open_error", "reopen: "+err.Error(), nil)
			return
		}
		got, gerr := e3.Get(key(0))
		want, live := post.Get(key(0))
		e3.Close()
		if cerr != nil && gerr == nil && bytes.Equal(got, []byte("written-after-close")) {
			res.Violate("failed_commit_left_trace", fmt.Sprintf("a commit that failed (%v, engine closed) is visible after reopen", cerr), nil)
			return
		}
		if cerr == nil {
			// commit on a closed engine succeeded: then it must be durable (model follows)
			post.Put(key(0), []byte("written-after-close"))
			hi2, _ := os.Stat(newest)
			_ = hi2
		} else if (gerr == nil) != live || (live && !bytes.Equal(got, want)) {
			res.Violate("failed_commit_left_trace", fmt.Sprintf("after a failed commit on a closed engine key %s reads %s (err %v), expected %s", key(0), kv.Q(got), gerr, kv.Q(want)), nil)
			return
		}
		res.Count("closed_engine_commits", 1)
		// the reopenings above may have appended nothing; sizes must be unchanged for the cut range to be valid
		st2, _ := os.Stat(newest)
		if st2 == nil || st2.Size() != hi {
			res.Count("torn_skipped_log_changed", 1)
			res.Sig = core.Sig("torn-skip", c.Idx)
			res.Nontrivial = false
			return
		}
	}
	var keys []string
	for k := range post.Ever {
		keys = append(keys, k)
	}
	sort.Strings(keys)
	// cut offsets: boundaries and interior of the final batch's byte range
	offs := map[int64]bool{lo: true, lo + 1: true, lo + 7: true, lo + 8: true, hi - 1: true, hi - 7: true, hi - 8: true}
	nc := 10
	if c.Thorough {
		nc = 30
	}
	for i := 0; i < nc; i++ {
		offs[lo+int64(r.Intn(int(hi-lo)))] = true
	}
	inside := 0
	partialSeen := false
	for off := range offs {
		if off < lo || off >= hi {
			continue
		}
		cdir := c.Dir + "/cut"
		os.RemoveAll(cdir)
		if err := copyDir(dir, cdir); err != nil {
			res.Inconclusive = "copy failed"
			return
		}
		// the manifest stores absolute directories: rewrite them for the copy
		mb, _ := os.ReadFile(filepath.Join(cdir, "MANIFEST"))
		os.WriteFile(filepath.Join(cdir, "MANIFEST"), bytes.ReplaceAll(mb, []byte(dir), []byte(cdir)), 0644)
		os.Truncate(filepath.Join(cdir, "wal", filepath.Base(newest)), off)
		e4, err := engine.NewEngineFacade(cdir)
		res.Count("torn_cuts", 1)
		feat := map[string]string{"kind": "torn", "torn_inside_batch": fmt.Sprint(off > lo)}
		if err != nil {
			res.Violate("recovery_open_failed", fmt.Sprintf("log cut at byte %d (final commit occupies [%d,%d)): open failed: %v", off, lo, hi, err), feat)
			return
		}
		state, serr := kv.StateOf(e4.Get, keys)
		e4.Close()
		if serr != nil {
			res.Violate("recovery_read_error", serr.Error(), feat)
			return
		}
		dPre, _ := diffCount(model, state, keys)
		dPost, firstPost := diffCount(post, state, keys)
		if off > lo {
			inside++
		}
		if dPre != 0 && dPost != 0 && !partialSeen {
			partialSeen = true // keep going: the other cuts may fail in a different way
			res.Violate("torn_commit_partially_recovered", fmt.Sprintf("log cut at byte %d inside the final commit [%d,%d) (%d operations): the reopened database holds a strict subset of the transaction (%d keys differ from the pre-commit state, %d from the post-commit state, e.g. %s)",
				off, lo, hi, n, dPre, dPost, firstPost), feat)
		}
	}
	res.Sig = core.Sig("torn", n, hi-lo, big)
	res.Nontrivial = inside > 0
	if c.Idx == 3 {
		res.Sample = map[string]interface{}{"case": c.Idx, "kind": "torn final write", "final_commit_ops": n, "commit_byte_range": []int64{lo, hi}, "cuts": len(offs)}
	}
}

func diffCount(m *kv.Model, state map[string][]byte, keys []string) (int, string) {
	n := 0
	first := ""
	for _, k := range keys {
		want, live := m.M[k]
		got, have := state[k]
		if live != have || (live && !bytes.Equal(want, got)) {
			n++
			if first == "" {
				first = fmt.Sprintf("%s recovered=%v", kv.Q([]byte(k)), have)
			}
		}
	}
	return n, first
}
