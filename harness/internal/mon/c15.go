package mon

import (
	"context"
	"fmt"
	"os"
	"runtime"
	"sort"
	"strings"
	"sync"
	"sync/atomic"
	"time"

	"github.com/KevoDB/kevo/pkg/replication"
	rp "github.com/KevoDB/kevo/proto/kevo/replication"
	"google.golang.org/grpc"
	"google.golang.org/grpc/credentials/insecure"
	"google.golang.org/grpc/metadata"

	"verif/internal/core"
	"verif/internal/kv"
)

func init() {
	core.Register(&core.Monitor{
		ID:    "C15",
		Level: "exploration",
		Rule: "a real primary (engine + replication.Manager on loopback, heartbeat interval/timeout shortened through the public PrimaryConfig) runs a client workload of puts with 4KB values " +
			"(several MB in total, so that flow-control windows fill), gets and transactions with the latency of every call recorded, next to fault-injected peers: control (one healthy real " +
			"replica), a raw StreamWAL client that never calls Recv, one that reads one message per second, one that reads but never acknowledges, one that sends NegativeAcknowledge " +
			"continuously, a replica that connects and drops its TCP connection every few ms, a real replica whose TCP path is stalled or cut by a proxy - each alone and next to healthy " +
			"acknowledging replicas. Oracles: every client call returns without error and the workload finishes (progress watchdog: no call may take > 10s while the fault-free baseline " +
			"measured in the same run is milliseconds; the witness of a stall is the goroutine dump of the worker); a peer that disconnected abruptly is gone from the reported topology within " +
			"3x the heartbeat timeout; the healthy replica still converges (C14 oracle). Every second scenario instance runs with synchronous logging; client values 0.7-4KB; flapping peers end in bursts of 2-12 sessions; one noread variant is up to date when it attaches and announces compression support; five stalled peers are cut off at the end and must leave the topology. distinct = hash(scenario, peers, workload size); non-trivial = the misbehaving peer was attached while " +
			">= 1MB was written",
		Assumptions: []string{"bounded liveness: 10s per call is >= 100x the measured fault-free latency; a stalled workload is reported as violation with the stall point, not proven deadlock",
			"'eventually dropped from the topology' is judged for peers whose connection ended (cut/flapping); for peers that merely stop reading it is recorded as finding D23b"},
		NumCases: func(tier string) int {
			if tier == "thorough" {
				return 160
			}
			return 24
		},
		Run:         runC15,
		CaseTimeout: 5 * time.Minute,
		HangClass:   "primary_stalled",
		Workers:     6,
	})
}

// rawPeer is a misbehaving StreamWAL client.
type rawPeer struct {
	conn    *grpc.ClientConn
	cancel  context.CancelFunc
	session atomic.Value
	recvd   atomic.Int64
}

func dialRaw(addr string) (*grpc.ClientConn, rp.WALReplicationServiceClient, error) {
	conn, err := grpc.NewClient(addr, grpc.WithTransportCredentials(insecure.NewCredentials()),
		grpc.WithDefaultCallOptions(grpc.MaxCallRecvMsgSize(32<<20)))
	if err != nil {
		return nil, nil, err
	}
	return conn, rp.NewWALReplicationServiceClient(conn), nil
}

// startRawPeer opens a stream and then behaves according to mode:
// "noread" never calls Recv, "slow" reads one message per second, "noack" reads everything but never acknowledges,
// "nack" reads and sends NegativeAcknowledge all the time, "ack" reads and acknowledges (healthy fake).
func startRawPeer(addr, mode, listen string) (*rawPeer, error) {
	return startRawPeerFrom(addr, mode, listen, 0)
}

// startRawPeerFrom: as startRawPeer, asking for the log from startSeq on (0 = from the beginning).
func startRawPeerFrom(addr, mode, listen string, startSeq uint64) (*rawPeer, error) {
	conn, cl, err := dialRaw(addr)
	if err != nil {
		return nil, err
	}
	ctx, cancel := context.WithCancel(context.Background())
	st, err := cl.StreamWAL(ctx, &rp.WALStreamRequest{StartSequence: startSeq, ProtocolVersion: 1, CompressionSupported: startSeq > 0, ListenerAddress: listen})
	if err != nil {
		cancel()
		conn.Close()
		return nil, err
	}
	p := &rawPeer{conn: conn, cancel: cancel}
	if mode == "noread" {
		return p, nil
	}
	go func() {
		md, _ := st.Header()
		if ids := md.Get("session-id"); len(ids) > 0 {
			p.session.Store(ids[0])
		}
		var last uint64
		for {
			m, err := st.Recv()
			if err != nil {
				return
			}
			p.recvd.Add(1)
			for _, e := range m.Entries {
				if e.SequenceNumber > last {
					last = e.SequenceNumber
				}
			}
			sid, _ := p.session.Load().(string)
			actx := metadata.AppendToOutgoingContext(ctx, "session-id", sid)
			switch mode {
			case "slow":
				time.Sleep(time.Second)
			case "ack":
				cl.Acknowledge(actx, &rp.Ack{AcknowledgedUpTo: last})
			case "nack":
				// (the NACKs are sent by the separate goroutine below)
				_ = actx
			}
		}
	}()
	if mode == "nack" {
		go func() {
			for ctx.Err() == nil {
				if sid, _ := p.session.Load().(string); sid != "" {
					actx := metadata.AppendToOutgoingContext(ctx, "session-id", sid)
					cl.NegativeAcknowledge(actx, &rp.Nack{MissingFromSequence: 1})
				}
				time.Sleep(25 * time.Millisecond)
			}
		}()
	}
	return p, nil
}

func (p *rawPeer) stop() {
	p.cancel()
	p.conn.Close()
}

func runC15(c *core.Ctx, res *core.Result) {
	r := c.Rand
	scenarios := []string{"control", "noread", "slow", "noack", "nack", "flapping", "proxy_stall", "proxy_cut"}
	scen := scenarios[c.Idx%len(scenarios)]
	healthy := (c.Idx / len(scenarios)) % 3 // number of healthy acknowledging peers next to the faulty one
	if scen == "control" && healthy == 0 {
		healthy = 1
	}
	// synchronous logging in every second scenario instance: the primary's OnWALSync path (primary lock taken on
	// the write path) only runs when the log is synced
	syncMode := []int{0, 2}[(c.Idx%len(scenarios)+c.Idx/len(scenarios)+1)%2]
	cfg := kv.Cfg{MemTableSize: []int64{64 << 10, 32 << 20}[r.Intn(2)], MaxMemTables: 4, SyncMode: syncMode, CompactSecs: 3600}
	if scen == "noread" && (c.Idx/len(scenarios))%2 == 1 {
		cfg.MemTableSize = 32 << 20 // no log rotation: the primary's write-path observer stays attached to the log
	}
	pcfg := replication.DefaultPrimaryConfig()
	hbTimeout := 2 * time.Second
	pcfg.HeartbeatConfig = &replication.HeartbeatConfig{Interval: 500 * time.Millisecond, Timeout: hbTimeout, SendEmptyResponses: true}
	pn, paddr, err := startPrimaryNode(c.Dir+"/primary", cfg, pcfg)
	if err != nil {
		res.Inconclusive = "cannot start primary: " + err.Error()
		return
	}
	stopped := false
	defer func() {
		if !stopped {
			pn.stop()
		}
	}()
	feat := map[string]string{"scenario": scen, "healthy_peers": fmt.Sprint(healthy), "acking_peers_present": fmt.Sprint(healthy > 0)}
	// value size of the client's puts: pushes of different sizes take different paths on the primary
	vsz := []int{4096, 1800, 700}[(c.Idx/len(scenarios)+c.Idx)%3]
	desc := fmt.Sprintf("scenario=%s healthy_peers=%d memtable=%d sync=%d value_size=%d", scen, healthy, cfg.MemTableSize, cfg.SyncMode, vsz)
	// fault-free baseline latency
	t0 := time.Now()
	for i := 0; i < 200; i++ {
		pn.eng.Put([]byte(fmt.Sprintf("base%03d", i)), make([]byte, 4096))
	}
	baseline := time.Since(t0) / 200
	// peers
	proxy, err := newProxy(paddr)
	if err != nil {
		res.Inconclusive = err.Error()
		return
	}
	defer proxy.Close()
	var peers, badPeers []*rawPeer
	defer func() {
		for _, p := range peers {
			p.stop()
		}
	}()
	for i := 0; i < healthy; i++ {
		p, err := startRawPeer(paddr, "ack", fmt.Sprintf("127.0.0.1:%d", 7100+i))
		if err == nil {
			peers = append(peers, p)
		}
	}
	var realRep *replNode
	defer func() {
		if realRep != nil {
			realRep.stop()
		}
	}()
	var flapStop atomic.Bool
	var flaps atomic.Int64
	var fwg sync.WaitGroup
	badListen := "127.0.0.1:7999"
	switch scen {
	case "control":
		realRep, err = startReplicaNode(c.Dir+"/replica", cfg, paddr)
		if err != nil {
			res.Inconclusive = "cannot start replica: " + err.Error()
			return
		}
	case "noread", "slow", "noack", "nack":
		var from uint64
		if scen == "noread" && (c.Idx/len(scenarios))%2 == 1 {
			// a peer that is up to date when it attaches (asks for the log from the primary's next sequence on) and
			// never reads: its flow-control window is empty, so the primary's pushes on the write path - not the
			// poller's catch-up - are what fills it
			from = pn.eng.GetWAL().GetNextSequence()
		}
		p, err := startRawPeerFrom(paddr, scen, badListen, from)
		if err != nil {
			res.Inconclusive = "cannot attach the misbehaving peer: " + err.Error()
			return
		}
		peers = append(peers, p)
		badPeers = append(badPeers, p)
		if scen == "noread" {
			// several of them: each one's end-of-connection handling is exercised when they are cut off below
			for i := 0; i < 4; i++ {
				if q, err := startRawPeerFrom(paddr, scen, badListen, from); err == nil {
					peers = append(peers, q)
					badPeers = append(badPeers, q)
				}
			}
		}
	case "flapping":
		fwg.Add(1)
		frr := r.Derive(4242)
		go func() {
			defer fwg.Done()
			for !flapStop.Load() {
				// one peer, or a burst of peers whose sessions all end at the same instant
				nb := 1
				if frr.Chance(50) {
					nb = frr.Range(2, 12)
				}
				var burst []*rawPeer
				for i := 0; i < nb; i++ {
					if p, err := startRawPeer(paddr, "ack", badListen); err == nil {
						burst = append(burst, p)
					}
				}
				time.Sleep(time.Duration(2+frr.Intn(6)) * time.Millisecond)
				var bwg sync.WaitGroup
				for _, p := range burst {
					bwg.Add(1)
					go func(p *rawPeer) { defer bwg.Done(); p.stop() }(p)
				}
				bwg.Wait()
				flaps.Add(int64(len(burst)))
			}
		}()
	case "proxy_stall", "proxy_cut":
		realRep, err = startReplicaNode(c.Dir+"/replica", cfg, proxy.Addr())
		if err != nil {
			res.Inconclusive = "cannot start replica: " + err.Error()
			return
		}
		time.Sleep(300 * time.Millisecond)
	}
	time.Sleep(200 * time.Millisecond) // let the peers register
	// workload with per-call latency and a progress watchdog
	nops := r.Range(800, 1600)
	var done atomic.Int64
	var worst atomic.Int64
	var werrs, busyErrs atomic.Int64
	var firstErr atomic.Value
	finished := make(chan struct{})
	go func() {
		defer close(finished)
		for i := 0; i < nops; i++ {
			if scen == "proxy_stall" && i == nops/4 {
				proxy.Stall()
			}
			if scen == "proxy_cut" && i == nops/4 {
				proxy.Cut()
			}
			t := time.Now()
			var err error
			switch i % 10 {
			case 7:
				_, err = pn.eng.Get([]byte(fmt.Sprintf("w%04d", r.Intn(i+1))))
				if kv.IsNotFound(err) {
					err = nil
				}
			case 9:
				tx, e := pn.eng.BeginTransaction(false)
				if e == nil {
					tx.Put([]byte(fmt.Sprintf("t%04d-a", i)), make([]byte, 512))
					tx.Put([]byte(fmt.Sprintf("t%04d-b", i)), make([]byte, 512))
					err = tx.Commit()
				} else {
					err = e
				}
			default:
				err = pn.eng.Put([]byte(fmt.Sprintf("w%04d", i)), make([]byte, vsz))
			}
			d := time.Since(t)
			if int64(d) > worst.Load() {
				worst.Store(int64(d))
			}
			if kv.IsEngineBusy(err) {
				busyErrs.Add(1) // the engine's own give-up (log in rotation longer than its retries): not caused by a replica
			} else if err != nil {
				werrs.Add(1)
				firstErr.CompareAndSwap(nil, err.Error())
			}
			done.Add(1)
		}
	}()
	stalledAt := int64(-1)
	lastProgress := time.Now()
	lastDone := int64(0)
loop:
	for {
		select {
		case <-finished:
			break loop
		case <-time.After(100 * time.Millisecond):
			if d := done.Load(); d != lastDone {
				lastDone, lastProgress = d, time.Now()
			} else if time.Since(lastProgress) > 10*time.Second {
				stalledAt = d
				break loop
			}
		}
	}
	flapStop.Store(true)
	if stalledAt >= 0 {
		// the primary is stuck: do not try to close it (Close would hang on the same locks)
		stopped = true
		res.Violate("primary_stalled", fmt.Sprintf("%s: the client workload on the primary stopped making progress for 10s after %d of %d calls (%d KB written; fault-free latency %.2f ms per 4KB put): a replica-side behaviour blocks the primary's write path\nblocked goroutines (kevo frames):\n%s",
			desc, stalledAt, nops, stalledAt*int64(vsz)/1024, float64(baseline)/1e6, blockedKevoStacks()), feat)
		return
	}
	fwg.Wait()
	res.Count("peer_sessions_flapped", flaps.Load())
	res.Count("client_calls", int64(nops))
	res.Count("client_calls_refused_engine_busy", busyErrs.Load())
	res.Count("kb_written", int64(nops*vsz/1024))
	if w := time.Duration(worst.Load()); w > 5*time.Second {
		res.Violate("primary_call_slow", fmt.Sprintf("%s: one client call took %s (fault-free latency %.2f ms)", desc, w, float64(baseline)/1e6), feat)
		return
	}
	if werrs.Load() > 0 {
		res.Violate("primary_call_failed", fmt.Sprintf("%s: %d client calls on the primary failed, first: %v", desc, werrs.Load(), firstErr.Load()), feat)
		return
	}
	// topology: a peer whose connection ended must disappear
	if scen == "noread" {
		// the stalled peers (each with a backlog the primary could not deliver) are cut off now
		for _, p := range badPeers {
			p.stop()
		}
	}
	if scen == "flapping" || scen == "proxy_cut" || scen == "noread" {
		deadline := time.Now().Add(3*hbTimeout + 2*time.Second)
		gone := false
		var listed []string
		for time.Now().Before(deadline) {
			_, _, reps, _, _ := pn.mgr.GetNodeInfo()
			listed = listed[:0]
			bad := 0
			for _, ri := range reps {
				listed = append(listed, fmt.Sprintf("%s(available=%v)", ri.Address, ri.Available))
				if (scen == "flapping" || scen == "noread") && ri.Address == badListen && ri.Available {
					bad++
				}
				if scen == "proxy_cut" && realRep != nil && ri.Available && !strings.HasPrefix(ri.Address, "127.0.0.1:71") {
					bad++
				}
			}
			if os.Getenv("VERIF_DEBUG_C15") != "" {
				fmt.Fprintf(os.Stderr, "topology look: bad=%d listed=%v\n", bad, listed)
			}
			if bad == 0 {
				gone = true
				break
			}
			time.Sleep(100 * time.Millisecond)
		}
		sort.Strings(listed)
		if !gone {
			res.Violate("dead_peer_still_listed", fmt.Sprintf("%s: %s after its connection ended the peer is still reported as an available replica: %v", desc, 3*hbTimeout, listed), feat)
			return
		}
		res.Count("topology_checks", 1)
	}
	// the healthy real replica still converges
	if scen == "control" && realRep != nil {
		if _, diff := waitConverged(pn.eng, realRep.eng, 60*time.Second); diff != "" {
			res.Violate("healthy_replica_did_not_converge", fmt.Sprintf("%s: %s", desc, diff), feat)
			return
		}
		res.Count("healthy_convergence_checks", 1)
	}
	if scen == "proxy_stall" || scen == "proxy_cut" {
		proxy.Restore()
		if realRep != nil {
			if _, diff := waitConverged(pn.eng, realRep.eng, 90*time.Second); diff != "" {
				res.Violate("replica_did_not_converge_after_link_restored", fmt.Sprintf("%s: %s", desc, diff), feat)
				return
			}
			res.Count("healthy_convergence_checks", 1)
		}
	}
	for _, p := range peers[:min(healthy, len(peers))] {
		if p.recvd.Load() == 0 {
			res.Violate("healthy_peer_starved", fmt.Sprintf("%s: a healthy acknowledging peer received nothing while the primary wrote %d KB", desc, nops*vsz/1024), feat)
			return
		}
	}
	res.Sig = core.Sig(scen, healthy, nops, cfg.MemTableSize)
	res.Nontrivial = nops*vsz/1024 >= 400
	if c.Idx < 8 {
		res.Sample = map[string]interface{}{"case": c.Idx, "scenario": scen, "healthy_peers": healthy, "client_calls": nops, "kb_written": nops * vsz / 1024,
			"baseline_put_ms": float64(baseline) / 1e6, "worst_call_ms": float64(worst.Load()) / 1e6}
	}
}

// blockedKevoStacks returns the stacks of goroutines that are parked inside kevo code.
// replicationStacks lists every goroutine that is inside pkg/replication (function names only).
func replicationStacks() string {
	buf := make([]byte, 8<<20)
	n := runtime.Stack(buf, true)
	var out []string
	for _, g := range strings.Split(string(buf[:n]), "\n\n") {
		if !strings.Contains(g, "KevoDB/kevo/pkg/replication") {
			continue
		}
		var keep []string
		for _, l := range strings.Split(g, "\n") {
			if strings.HasPrefix(l, "\t") {
				continue
			}
			if i := strings.LastIndex(l, "("); i > 0 && !strings.HasPrefix(l, "goroutine") {
				l = l[:i]
			}
			keep = append(keep, "  "+strings.TrimPrefix(l, "github.com/KevoDB/kevo/"))
			if len(keep) > 14 {
				break
			}
		}
		out = append(out, strings.Join(keep, "\n"))
		if len(out) >= 30 {
			break
		}
	}
	return strings.Join(out, "\n")
}

func blockedKevoStacks() string {
	buf := make([]byte, 4<<20)
	n := runtime.Stack(buf, true)
	var out []string
	for _, g := range strings.Split(string(buf[:n]), "\n\n") {
		if !strings.Contains(g, "KevoDB/kevo/pkg") {
			continue
		}
		if !(strings.Contains(g, "sync.(*Mutex).Lock") || strings.Contains(g, "sync.(*RWMutex)") || strings.Contains(g, "Stream") || strings.Contains(g, "semacquire")) {
			continue
		}
		var keep []string
		for _, l := range strings.Split(g, "\n") {
			if strings.HasPrefix(l, "goroutine ") || strings.Contains(l, "KevoDB/kevo") && !strings.HasPrefix(l, "\t") || strings.HasPrefix(l, "sync.") || strings.Contains(l, "grpc.(*serverStream).SendMsg") {
				if i := strings.LastIndex(l, "("); i > 0 && !strings.HasPrefix(l, "goroutine") {
					l = l[:i]
				}
				l = strings.TrimPrefix(l, "github.com/KevoDB/kevo/")
				keep = append(keep, "  "+l)
			}
		}
		out = append(out, strings.Join(keep, "\n"))
		if len(out) >= 14 {
			break
		}
	}
	return strings.Join(out, "\n")
}
