package mon

import (
	"bytes"
	"context"
	"fmt"
	"net"
	"sort"
	"strings"
	"sync"
	"time"

	"github.com/KevoDB/kevo/pkg/replication"
	"github.com/KevoDB/kevo/pkg/wal"
	rp "github.com/KevoDB/kevo/proto/kevo/replication"
	"google.golang.org/grpc"
	"google.golang.org/grpc/codes"
	"google.golang.org/grpc/metadata"
	"google.golang.org/grpc/status"

	"verif/internal/core"
	"verif/internal/kv"
)

func init() {
	core.Register(&core.Monitor{
		ID:    "C13",
		Level: "exploration",
		Rule: "three case kinds. (a) 70%: the replica's batch applier (WALBatchApplier) is fed a generated primary history (single operations and transactions sharing one sequence number) " +
			"under a generated hostile delivery schedule - arbitrary splits at unit boundaries, exact duplicates, overlapping batches, batches from the future (gaps), swapped batches, " +
			"retransmission from the applier's expected sequence - with a recording apply function; oracle over the apply log: every applied entry is the next entry of the history, or a " +
			"re-application inside the current transaction (idempotent stutter); after an honest tail everything was applied exactly once in order; the reported applied sequence never " +
			"decreases and never exceeds what was applied; the replica state after each message is a prefix state. (b) 15%: entry serialisation and every compression codec round-trip on " +
			"generated entries (empty values, 0x00 keys, 1MB values). (c) 15%: a real Replica with a recording applier against a scripted fake primary (real gRPC on loopback) that splits, " +
			"duplicates, overlaps, jumps ahead and resets streams at PRNG points; same oracle, completion required within 60s. " +
			"Hostile classes also include messages with an interior hole (a unit missing behind the first entry); every 8th applier case injects one or two transient apply errors of the replica's store. distinct = hash(history shape, schedule); non-trivial = >= 1 hostile message (duplicate/overlap/gap/reset) was delivered and the history held >= 1 transaction",
		Assumptions: []string{"messages are cut at unit boundaries (a transaction is one log unit); splits inside a transaction are generated as a separate schedule class",
			"apply errors on the replica are not injected (not in the statement's list of perturbations)"},
		NumCases: func(tier string) int {
			if tier == "thorough" {
				return 8000
			}
			return 600
		},
		Run:         runC13,
		CaseTimeout: 4 * time.Minute,
	})
}

type rhEntry struct {
	e    *wal.Entry
	unit int // index of its unit (transaction or single op)
}

// genReplHistory builds a primary history: units with increasing sequence numbers.
func genReplHistory(r *core.Rand, tag string, nunits int, bigTx bool) []rhEntry {
	var h []rhEntry
	seq := uint64(0)
	nk := r.Range(2, 10)
	for u := 0; u < nunits; u++ {
		seq++
		n := 1
		if r.Chance(30) {
			n = r.Range(2, 6)
			if bigTx && r.Chance(20) {
				n = r.Range(60, 160)
			}
		}
		used := map[int]bool{}
		for i := 0; i < n; i++ {
			k := r.Intn(nk)
			if n > 1 {
				// entries of one transaction have distinct keys (the buffer keeps one operation per key)
				for used[k] {
					k++
				}
				used[k] = true
			}
			key := []byte(fmt.Sprintf("r%03d", k))
			e := &wal.Entry{SequenceNumber: seq, Type: wal.OpTypePut, Key: key, Value: []byte(fmt.Sprintf("%s.%d.%d", tag, u, i))}
			if r.Chance(20) {
				e.Type = wal.OpTypeDelete
				e.Value = nil
			}
			h = append(h, rhEntry{e, u})
		}
	}
	return h
}

func toProto(es []rhEntry) []*rp.WALEntry {
	var out []*rp.WALEntry
	for _, x := range es {
		p, err := replication.WALEntryToProto(x.e, rp.FragmentType_FULL)
		if err != nil {
			continue
		}
		out = append(out, p)
	}
	return out
}

// applyLog is the recording applier + oracle.
type applyLog struct {
	mu      sync.Mutex
	h       []rhEntry
	pos     int // entries applied in order so far
	applied int
	bad     string
	state   *kv.Model
	maxSeq  uint64
}

func newApplyLog(h []rhEntry) *applyLog { return &applyLog{h: h, state: kv.NewModel()} }

func sameEntry(a, b *wal.Entry) bool {
	return a.SequenceNumber == b.SequenceNumber && a.Type == b.Type && bytes.Equal(a.Key, b.Key) && bytes.Equal(a.Value, b.Value)
}

func (l *applyLog) Apply(e *wal.Entry) error {
	l.mu.Lock()
	defer l.mu.Unlock()
	l.applied++
	if e.SequenceNumber > l.maxSeq {
		l.maxSeq = e.SequenceNumber
	}
	if l.bad != "" {
		return nil
	}
	if l.pos < len(l.h) && sameEntry(e, l.h[l.pos].e) {
		l.pos++
	} else {
		// tolerated: re-application of an entry of the transaction that was applied last
		ok := false
		if l.pos > 0 {
			cur := l.h[l.pos-1].unit
			for q := l.pos - 1; q >= 0 && l.h[q].unit == cur; q-- {
				if sameEntry(e, l.h[q].e) {
					ok = true
				}
			}
		}
		if !ok {
			exp := "nothing (history complete)"
			if l.pos < len(l.h) {
				x := l.h[l.pos].e
				exp = fmt.Sprintf("{seq=%d key=%s value=%s}", x.SequenceNumber, x.Key, x.Value)
			}
			kind := "an entry that is not in the history"
			for q, x := range l.h {
				if sameEntry(e, x.e) {
					if q < l.pos {
						kind = fmt.Sprintf("entry #%d again, out of order (a regression of %d entries)", q, l.pos-1-q)
					} else {
						kind = fmt.Sprintf("entry #%d, skipping %d entries", q, q-l.pos)
					}
					break
				}
			}
			l.bad = fmt.Sprintf("after %d entries applied in order the replica applied {seq=%d type=%d key=%s value=%s}: %s; the next entry of the primary history is %s",
				l.pos, e.SequenceNumber, e.Type, e.Key, e.Value, kind, exp)
			return nil
		}
	}
	if e.Type == wal.OpTypeDelete {
		l.state.Del(e.Key)
	} else {
		l.state.Put(e.Key, e.Value)
	}
	return nil
}
func (l *applyLog) Sync() error { return nil }

func (l *applyLog) status() (pos int, bad string, maxSeq uint64) {
	l.mu.Lock()
	defer l.mu.Unlock()
	return l.pos, l.bad, l.maxSeq
}

func runC13(c *core.Ctx, res *core.Result) {
	switch {
	case c.Idx%20 < 14:
		c13Applier(c, res)
	case c.Idx%20 < 17:
		c13Encoding(c, res)
	default:
		c13Replica(c, res)
	}
}

// unitBounds returns the indices at which a message may start (unit heads).
func unitHeads(h []rhEntry) []int {
	var out []int
	for i := range h {
		if i == 0 || h[i].unit != h[i-1].unit {
			out = append(out, i)
		}
	}
	return out
}

func headOfSeq(h []rhEntry, seq uint64) int {
	for i := range h {
		if h[i].e.SequenceNumber >= seq {
			return i
		}
	}
	return len(h)
}

func c13Applier(c *core.Ctx, res *core.Result) {
	r := c.Rand
	h := genReplHistory(r, fmt.Sprintf("c%d", c.Idx), r.Range(5, 60), false)
	heads := unitHeads(h)
	splitInsideTx := r.Chance(8)
	al := newApplyLog(h)
	ap := replication.NewWALBatchApplier(0)
	var trace []string
	hostile := 0
	var lastReported uint64
	cut := func(from int) int {
		// end of a message starting at from: a later unit head (or inside a unit in the split class)
		to := from + r.Range(1, 12)
		if to >= len(h) {
			return len(h)
		}
		if splitInsideTx && r.Chance(50) {
			return to
		}
		for to < len(h) && h[to].unit == h[to-1].unit {
			to++
		}
		return to
	}
	// in every 8th case the replica's store fails once or twice (a transient apply error, also in the middle of a
	// transaction): what was applied in front of the failure stays applied, nothing may be skipped afterwards
	applyFaults := map[int]bool{}
	if c.Idx%8 == 5 {
		for i, n := 0, r.Range(1, 2); i < n; i++ {
			applyFaults[r.Range(1, 3*len(h))] = true
		}
	}
	applyCalls := 0
	applyFn := func(e *wal.Entry) error {
		applyCalls++
		if applyFaults[applyCalls] {
			res.Count("apply_errors_injected", 1)
			return fmt.Errorf("transient store error (injected)")
		}
		return al.Apply(e)
	}
	feat := map[string]string{"kind": "applier", "split_inside_transaction": fmt.Sprint(splitInsideTx), "apply_faults": fmt.Sprint(len(applyFaults) > 0)}
	var holed []rhEntry // when set, deliver sends this instead of h[from:to] (same first and last entry, a unit missing inside)
	deliver := func(kind string, from, to int) bool {
		if from >= to {
			return true
		}
		msg := toProto(h[from:to])
		if holed != nil {
			msg = toProto(holed)
			holed = nil
		}
		before, _, _ := al.status()
		maxApplied, gap, err := ap.ApplyEntries(msg, applyFn)
		trace = append(trace, fmt.Sprintf("%s entries [%d,%d) seq %d..%d -> applied up to %d gap=%v err=%v", kind, from, to, h[from].e.SequenceNumber, h[to-1].e.SequenceNumber, maxApplied, gap, err != nil))
		res.Count("messages", 1)
		pos, bad, maxSeq := al.status()
		if bad != "" {
			res.Violate("apply_order", fmt.Sprintf("%s\nschedule:\n%s", bad, tail(trace, 40)), feat)
			return false
		}
		if maxApplied < lastReported {
			res.Violate("applied_sequence_regressed", fmt.Sprintf("the reported applied sequence went from %d to %d\nschedule:\n%s", lastReported, maxApplied, tail(trace, 40)), feat)
			return false
		}
		if maxApplied > maxSeq {
			res.Violate("applied_sequence_ahead", fmt.Sprintf("the applier reports sequence %d applied, the highest applied entry has %d\nschedule:\n%s", maxApplied, maxSeq, tail(trace, 40)), feat)
			return false
		}
		lastReported = maxApplied
		// the reported position must not run ahead of what was applied in order
		if pos < len(h) && maxApplied >= h[pos].e.SequenceNumber && !(pos > 0 && h[pos-1].e.SequenceNumber == h[pos].e.SequenceNumber) {
			res.Violate("applied_sequence_ahead", fmt.Sprintf("the applier reports sequence %d applied, but entry #%d (seq %d) of the history has not been applied\nschedule:\n%s", maxApplied, pos, h[pos].e.SequenceNumber, tail(trace, 40)), feat)
			return false
		}
		_ = before
		return true
	}
	for step := 0; step < 400; step++ {
		pos, _, _ := al.status()
		if pos >= len(h) && step > 3 {
			break
		}
		exp := ap.GetExpectedNext()
		from := headOfSeq(h, exp)
		switch r.Pick(50, 12, 12, 12, 8, 8) {
		case 5: // starts at the expected sequence, but a whole unit is missing further in (the sender could not read it)
			to := from + r.Range(3, 14)
			if to > len(h) {
				to = len(h)
			}
			for to < len(h) && h[to].unit == h[to-1].unit {
				to++
			}
			var inner []int // unit heads strictly inside (from, to) whose unit also ends before to
			for _, x := range heads {
				if x > from && x < to && h[x].unit != h[from].unit && h[to-1].unit != h[x].unit {
					inner = append(inner, x)
				}
			}
			if len(inner) == 0 {
				continue
			}
			x := inner[r.Intn(len(inner))]
			y := x
			for y < to && h[y].unit == h[x].unit {
				y++
			}
			hostile++
			res.Count("messages_with_interior_hole", 1)
			holed = append(append([]rhEntry{}, h[from:x]...), h[y:to]...)
			if !deliver(fmt.Sprintf("hole(seq %d missing)", h[x].e.SequenceNumber), from, to) {
				return
			}
		case 0: // honest retransmission from the expected sequence
			if !deliver("honest", from, cut(from)) {
				return
			}
		case 1: // exact duplicate of something already applied
			if from == 0 {
				continue
			}
			hostile++
			a := heads[r.Intn(len(heads))]
			if a >= from {
				continue
			}
			b := cut(a)
			if b > from {
				b = from
			}
			if !deliver("duplicate", a, b) {
				return
			}
		case 2: // overlap: starts before the expected position, ends after it
			if from == 0 || from >= len(h) {
				continue
			}
			hostile++
			a := heads[r.Intn(len(heads))]
			if a >= from {
				continue
			}
			b := cut(from)
			if !deliver("overlap", a, b) {
				return
			}
		case 3: // from the future
			hostile++
			a := heads[r.Intn(len(heads))]
			if a <= from {
				continue
			}
			if !deliver("future", a, cut(a)) {
				return
			}
		case 4: // two honest chunks swapped
			m := cut(from)
			n := cut(m)
			if m >= len(h) || n <= m {
				continue
			}
			hostile++
			if !deliver("swapped-second", m, n) || !deliver("swapped-first", from, m) {
				return
			}
		}
	}
	// honest tail
	for guard := 0; guard < len(h)+5; guard++ {
		exp := ap.GetExpectedNext()
		from := headOfSeq(h, exp)
		if from >= len(h) {
			break
		}
		to := from + 1
		for to < len(h) && h[to].unit == h[to-1].unit {
			to++
		}
		if !deliver("tail", from, to) {
			return
		}
	}
	pos, _, _ := al.status()
	if pos != len(h) {
		res.Violate("entries_skipped", fmt.Sprintf("after an honest retransmission from the applier's expected sequence (%d) only %d of %d history entries were applied: entry #%d (seq %d, key %s) was skipped\nschedule:\n%s",
			ap.GetExpectedNext(), pos, len(h), pos, h[pos].e.SequenceNumber, h[pos].e.Key, tail(trace, 40)), feat)
		return
	}
	txs := 0
	for i := 1; i < len(h); i++ {
		if h[i].unit == h[i-1].unit {
			txs++
			break
		}
	}
	res.Count("history_entries", int64(len(h)))
	res.Count("hostile_messages", int64(hostile))
	res.Sig = core.Sig(len(h), strings.Join(trace, "|"))
	res.Nontrivial = hostile > 0 && txs > 0
	if c.Idx < 2 {
		t := trace
		if len(t) > 15 {
			t = t[:15]
		}
		res.Sample = map[string]interface{}{"case": c.Idx, "kind": "applier", "history_entries": len(h), "hostile_messages": hostile, "schedule_head": t}
	}
}

func c13Encoding(c *core.Ctx, res *core.Result) {
	r := c.Rand
	cm, err := replication.NewCompressionManager()
	if err != nil {
		res.Inconclusive = err.Error()
		return
	}
	defer cm.Close()
	n := 0
	for i := 0; i < 40; i++ {
		e := &wal.Entry{SequenceNumber: r.U64() >> uint(r.Intn(60)), Type: uint8(r.Range(1, 3))}
		e.Key = r.Bytes(r.Range(1, 40))
		if r.Chance(20) {
			e.Key[0] = 0
		}
		switch r.Pick(3, 10, 3, 1) {
		case 0:
			e.Value = []byte{}
		case 1:
			e.Value = r.Bytes(r.Range(1, 500))
		case 2:
			e.Value = bytes.Repeat([]byte("compressible "), r.Range(10, 2000))
		case 3:
			e.Value = r.Bytes(1 << 20)
		}
		if e.Type == wal.OpTypeDelete {
			e.Value = nil
		}
		payload, err := replication.SerializeWALEntry(e)
		if err != nil {
			res.Violate("encoding_error", fmt.Sprintf("SerializeWALEntry failed for {seq=%d type=%d klen=%d vlen=%d}: %v", e.SequenceNumber, e.Type, len(e.Key), len(e.Value), err), map[string]string{"kind": "encoding"})
			return
		}
		for _, codec := range []rp.CompressionCodec{rp.CompressionCodec_NONE, rp.CompressionCodec_ZSTD, rp.CompressionCodec_SNAPPY} {
			comp, err := cm.Compress(payload, codec)
			if err != nil {
				res.Violate("encoding_error", fmt.Sprintf("Compress(%v) failed: %v", codec, err), map[string]string{"kind": "encoding"})
				return
			}
			dec, err := cm.Decompress(comp, codec)
			if err != nil || !bytes.Equal(dec, payload) {
				res.Violate("encoding_mismatch", fmt.Sprintf("codec %v does not round-trip a %d byte payload (err %v)", codec, len(payload), err), map[string]string{"kind": "encoding"})
				return
			}
			back, err := replication.DeserializeWALEntry(dec)
			if err != nil || back.SequenceNumber != e.SequenceNumber || back.Type != e.Type || !bytes.Equal(back.Key, e.Key) || !bytes.Equal(back.Value, e.Value) {
				res.Violate("encoding_mismatch", fmt.Sprintf("entry {seq=%d type=%d key=%s vlen=%d} deserialises to %+v (err %v)", e.SequenceNumber, e.Type, kv.Q(e.Key), len(e.Value), back, err), map[string]string{"kind": "encoding"})
				return
			}
			n++
		}
	}
	res.Count("encoding_roundtrips", int64(n))
	res.Sig = core.Sig("enc", c.Idx, c.Seed)
	res.Nontrivial = true
}

// ---------------------------------------------------------------------------
// (c) real Replica against a scripted fake primary

type fakePrimary struct {
	rp.UnimplementedWALReplicationServiceServer
	mu       sync.Mutex
	h        []rhEntry
	r        *core.Rand
	streams  int
	hostile  int
	starts   []uint64
	acks     []uint64
	trace    []string
	maxStart uint64
	holes    int
}

func (f *fakePrimary) StreamWAL(req *rp.WALStreamRequest, st rp.WALReplicationService_StreamWALServer) error {
	f.mu.Lock()
	f.streams++
	n := f.streams
	f.starts = append(f.starts, req.StartSequence)
	rr := f.r.Derive(uint64(n))
	f.trace = append(f.trace, fmt.Sprintf("stream %d requested from sequence %d", n, req.StartSequence))
	f.mu.Unlock()
	st.SendHeader(metadata.Pairs("session-id", fmt.Sprintf("fake-%d", n)))
	h := f.h
	pos := headOfSeq(h, req.StartSequence)
	heads := unitHeads(h)
	send := func(kind string, a, b int) error {
		if a >= b {
			return nil
		}
		f.mu.Lock()
		f.trace = append(f.trace, fmt.Sprintf("stream %d: %s entries [%d,%d) seq %d..%d", n, kind, a, b, h[a].e.SequenceNumber, h[b-1].e.SequenceNumber))
		if kind != "honest" {
			f.hostile++
		}
		f.mu.Unlock()
		return st.Send(&rp.WALStreamResponse{Entries: toProto(h[a:b])})
	}
	cut := func(from int) int {
		to := from + rr.Range(1, 15)
		if to >= len(h) {
			return len(h)
		}
		for to < len(h) && h[to].unit == h[to-1].unit {
			to++
		}
		return to
	}
	for step := 0; step < 60; step++ {
		select {
		case <-st.Context().Done():
			return st.Context().Err()
		default:
		}
		if pos >= len(h) {
			// everything sent on this stream: idle until the replica goes away
			select {
			case <-st.Context().Done():
				return st.Context().Err()
			case <-time.After(300 * time.Millisecond):
				continue
			}
		}
		switch rr.Pick(60, 10, 10, 8, 6, 6, 6) {
		case 6: // starts where the replica is, but one unit further in is missing
			to := cut(cut(cut(pos)))
			var inner []int
			for _, x := range heads {
				if x > pos && x < to && h[x].unit != h[pos].unit && h[to-1].unit != h[x].unit {
					inner = append(inner, x)
				}
			}
			if len(inner) > 0 {
				x := inner[rr.Intn(len(inner))]
				y := x
				for y < to && h[y].unit == h[x].unit {
					y++
				}
				f.mu.Lock()
				f.trace = append(f.trace, fmt.Sprintf("stream %d: entries [%d,%d) seq %d..%d WITHOUT [%d,%d) (seq %d missing inside the message)", n, pos, to, h[pos].e.SequenceNumber, h[to-1].e.SequenceNumber, x, y, h[x].e.SequenceNumber))
				f.hostile++
				f.holes++
				f.mu.Unlock()
				msg := append(append([]rhEntry{}, h[pos:x]...), h[y:to]...)
				if err := st.Send(&rp.WALStreamResponse{Entries: toProto(msg)}); err != nil {
					return err
				}
				pos = x
			}
		case 0:
			to := cut(pos)
			if err := send("honest", pos, to); err != nil {
				return err
			}
			pos = to
		case 1: // duplicate of the previous range
			if pos > 0 {
				a := heads[rr.Intn(len(heads))]
				if a < pos {
					b := cut(a)
					if b > pos {
						b = pos
					}
					if err := send("duplicate", a, b); err != nil {
						return err
					}
				}
			}
		case 2: // overlap
			if pos > 0 && pos < len(h) {
				a := heads[rr.Intn(len(heads))]
				if a < pos {
					to := cut(pos)
					if err := send("overlap", a, to); err != nil {
						return err
					}
					pos = to
				}
			}
		case 3: // jump ahead (gap); a later stream or a NACK has to repair it
			a := heads[rr.Intn(len(heads))]
			if a > pos {
				if err := send("future", a, cut(a)); err != nil {
					return err
				}
			}
		case 4: // stream reset
			f.mu.Lock()
			f.trace = append(f.trace, fmt.Sprintf("stream %d: reset", n))
			f.hostile++
			f.mu.Unlock()
			return status.Error(codes.Unavailable, "scripted reset")
		case 5:
			time.Sleep(time.Duration(rr.Range(5, 120)) * time.Millisecond)
		}
	}
	<-st.Context().Done()
	return nil
}

func (f *fakePrimary) Acknowledge(ctx context.Context, a *rp.Ack) (*rp.AckResponse, error) {
	f.mu.Lock()
	f.acks = append(f.acks, a.AcknowledgedUpTo)
	f.mu.Unlock()
	return &rp.AckResponse{Success: true}, nil
}

func (f *fakePrimary) NegativeAcknowledge(ctx context.Context, n *rp.Nack) (*rp.NackResponse, error) {
	return &rp.NackResponse{Success: true}, nil
}

func c13Replica(c *core.Ctx, res *core.Result) {
	r := c.Rand
	nsched := 4
	var wg sync.WaitGroup
	var mu sync.Mutex
	type outcome struct {
		bad, inc string
		hostile  int
		streams  int
		entries  int
		holes    int
		trace    string
	}
	var outs []outcome
	for s := 0; s < nsched; s++ {
		wg.Add(1)
		rr := r.Derive(uint64(s + 1))
		go func(s int) {
			defer wg.Done()
			h := genReplHistory(rr, fmt.Sprintf("c%d.%d", c.Idx, s), rr.Range(5, 40), false)
			fp := &fakePrimary{h: h, r: rr.Derive(77)}
			lis, err := net.Listen("tcp", "127.0.0.1:0")
			if err != nil {
				mu.Lock()
				outs = append(outs, outcome{inc: "listen: " + err.Error()})
				mu.Unlock()
				return
			}
			srv := grpc.NewServer()
			rp.RegisterWALReplicationServiceServer(srv, fp)
			go srv.Serve(lis)
			defer srv.Stop()
			al := newApplyLog(h)
			cfg := replication.DefaultReplicaConfig()
			cfg.Connection.PrimaryAddress = lis.Addr().String()
			cfg.Connection.DialTimeout = 3 * time.Second
			cfg.Connection.RetryBaseDelay = 50 * time.Millisecond
			cfg.Connection.RetryMaxDelay = 300 * time.Millisecond
			cfg.ReplicationListenerAddr = "127.0.0.1:1"
			rep, err := replication.NewReplica(0, al, cfg)
			if err != nil {
				mu.Lock()
				outs = append(outs, outcome{inc: "NewReplica: " + err.Error()})
				mu.Unlock()
				return
			}
			rep.Start()
			deadline := time.Now().Add(60 * time.Second)
			var lastRep uint64
			o := outcome{entries: len(h)}
			for time.Now().Before(deadline) {
				pos, bad, maxSeq := al.status()
				if bad != "" {
					o.bad = bad
					break
				}
				la := rep.GetLastAppliedSequence()
				if la < lastRep {
					o.bad = fmt.Sprintf("GetLastAppliedSequence went from %d to %d", lastRep, la)
					break
				}
				if la > maxSeq {
					o.bad = fmt.Sprintf("GetLastAppliedSequence reports %d, the highest applied entry has sequence %d", la, maxSeq)
					break
				}
				lastRep = la
				if pos >= len(h) {
					break
				}
				time.Sleep(20 * time.Millisecond)
			}
			stopped := make(chan struct{})
			go func() { rep.Stop(); close(stopped) }()
			select {
			case <-stopped:
			case <-time.After(10 * time.Second):
			}
			pos, bad, _ := al.status()
			fp.mu.Lock()
			o.hostile, o.streams, o.holes, o.trace = fp.hostile, fp.streams, fp.holes, tail(fp.trace, 50)
			// a request that starts beyond an entry that was never applied is a skip
			if o.bad == "" && bad == "" && pos < len(h) {
				for _, st := range fp.starts {
					if st > h[pos].e.SequenceNumber {
						o.bad = fmt.Sprintf("the replica requested the log from sequence %d although entry #%d (seq %d) had not been applied: it was skipped", st, pos, h[pos].e.SequenceNumber)
					}
				}
				if o.bad == "" {
					o.inc = fmt.Sprintf("replica applied %d of %d entries within 60s", pos, len(h))
				}
			}
			fp.mu.Unlock()
			if o.bad == "" {
				o.bad = bad
			}
			mu.Lock()
			outs = append(outs, o)
			mu.Unlock()
		}(s)
	}
	wg.Wait()
	hostile, streams := 0, 0
	var sigs []string
	for _, o := range outs {
		hostile += o.hostile
		streams += o.streams
		res.Count("messages_with_interior_hole", int64(o.holes))
		sigs = append(sigs, fmt.Sprint(o.entries, o.hostile, o.streams))
		if o.bad != "" {
			res.Violate("apply_order", fmt.Sprintf("real Replica against a scripted primary: %s\nprimary-side trace:\n%s", o.bad, o.trace), map[string]string{"kind": "replica"})
			return
		}
		if o.inc != "" && res.Inconclusive == "" {
			res.Inconclusive = "real replica did not finish a scripted schedule in time"
			res.Count("replica_schedules_incomplete", 1)
		}
	}
	sort.Strings(sigs)
	res.Count("replica_schedules", int64(len(outs)))
	res.Count("replica_streams", int64(streams))
	res.Count("hostile_messages", int64(hostile))
	res.Sig = core.Sig("replica", sigs)
	res.Nontrivial = hostile > 0
	if c.Idx%20 == 17 && c.Idx < 40 && len(outs) > 0 {
		res.Sample = map[string]interface{}{"case": c.Idx, "kind": "real replica vs scripted primary", "schedules": len(outs), "streams": streams, "hostile_messages": hostile, "trace_head": strings.Split(outs[0].trace, "\n")[:min(12, len(strings.Split(outs[0].trace, "\n")))]}
	}
}
