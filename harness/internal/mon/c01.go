// Package mon holds one monitor per property.
package mon

import (
	"fmt"

	"verif/internal/core"
	"verif/internal/kv"
)

func init() {
	core.Register(&core.Monitor{
		ID:    "C01",
		Level: "exploration",
		Rule: "generated single-client programs (put/delete/get/read-write tx commit+rollback/batch/flush/compaction/range compaction/close+reopen/" +
			"offline log retirement) over mixed key classes and value length classes under PRNG-drawn memtable-size/max-memtables/sync-mode configurations; " +
			"every point read is compared with a sequential map model (touched keys after each op, all keys every 10 ops and after maintenance). " +
			"distinct = hash of (config, op-kind sequence); non-trivial = at least one flush/compaction/reopen/retire happened and reads were checked after it",
		Assumptions: []string{
			"one client; keys 1..4096 bytes; a nil value and an empty value are the same value",
			"a write that returns an error is a no-op for the model (errors are counted; >5% failing writes makes the case inconclusive)",
			"offline log retirement = flush twice, close, delete *.wal, reopen (what retention is entitled to remove)",
		},
		NumCases: func(tier string) int {
			if tier == "thorough" {
				return 12000
			}
			return 2500
		},
		Run:         runC01,
		CaseTimeout: 0,
	})
}

func runC01(c *core.Ctx, res *core.Result) {
	r := c.Rand
	cfg := kv.GenCfg(r)
	nops := r.Range(40, 120)
	if c.Thorough {
		nops = r.Range(40, 400)
	}
	o := kv.GenOpts{NOps: nops, NKeys: r.Range(4, 24), BigValues: r.Chance(25), Maintenance: r.Range(3, 14),
		CompactRange: r.Chance(20), Retire: true, Reopen: true, Tx: true, Batch: true}
	ks := kv.GenKeySpace(r, o.NKeys)
	ks.Locality = r.Chance(30)
	prog := kv.GenProgram(r, ks, fmt.Sprintf("c%d", c.Idx), o)
	x, err := kv.NewExec(c.Dir+"/db", cfg, res, r)
	if err != nil {
		res.Violate("open_error", fmt.Sprintf("creating a database with config %s failed: %v", cfg, err), nil)
		return
	}
	defer x.Close()
	x.Run(prog)
	kinds := ""
	maint := 0
	for _, op := range prog {
		kinds += op.Kind[:2]
		switch op.Kind {
		case "flush", "compact", "crange", "reopen", "retire":
			maint++
		}
	}
	res.Sig = core.Sig(cfg.String(), kinds)
	res.Nontrivial = maint > 0 && res.Counters["reads"] > 0
	if x.Writes > 20 && x.WriteErrs*20 > x.Writes && len(res.Violations) == 0 {
		res.Inconclusive = "more than 5% of the writes returned errors"
	}
	if c.Idx < 2 {
		var s []string
		for i, op := range prog {
			if i >= 25 {
				s = append(s, fmt.Sprintf("... %d more ops", len(prog)-i))
				break
			}
			s = append(s, op.String())
		}
		res.Sample = map[string]interface{}{"case": c.Idx, "config": cfg, "program": s}
	}
}
