package mon

import (
	"bytes"
	"context"
	"fmt"
	"strings"
	"sync"
	"time"

	"github.com/KevoDB/kevo/pkg/engine"
	"github.com/KevoDB/kevo/pkg/engine/interfaces"
	"github.com/KevoDB/kevo/pkg/transaction"
	"github.com/KevoDB/kevo/pkg/verifhook"
	pb "github.com/KevoDB/kevo/proto/kevo"

	"verif/internal/core"
	"verif/internal/kv"
)

func init() {
	core.Register(&core.Monitor{
		ID:               "C17",
		Level:            "exploration",
		RaceThoroughOnly: true,
		Rule: "five scenario kinds, each followed by a lock-leak probe (a fresh read-write transaction must begin and finish within 10s; normal: microseconds). (1) protocol: generated call " +
			"sequences on embedded transactions (operations, commit, rollback, double and triple finish, use after finish) against a two-state machine - the first finish succeeds, everything " +
			"after returns the closed error and changes nothing (state compared with the map model). (2) N concurrent clients each holding at most one embedded or registry transaction with " +
			"random finishing. (3) abandonment: registry built with a 60ms idle limit through the public constructor; the monitor waits 3x that and calls the exported sweep itself (a lower " +
			"bound, no race with 'now'), or CleanupConnection, or GracefulShutdown; the abandoned transaction's writes must be gone. (4) begin requests whose context deadline (5-30ms) expires " +
			"while another client holds the lock - the late-grant path - repeated for several rounds. (5) failures: commit after the storage was closed, service requests with invalid arguments " +
			"in the middle of a transaction. Every 20th case: 40 rounds of 16-40 simultaneous read-only begins through the registry (distinct handles, lock probe after all finished); every 20th case: overlapping finishing calls on one transaction queued behind an in-flight multi-megabyte put (exactly one may take effect). Every 100th case: 1-3 begin requests with contexts that never end give up on the registry's own 10s limit while another client holds the lock; after the holder's commit the lock probe must succeed (late grants given back). Shutdown scenarios abandon several transactions and pass an expired context in every second instance. distinct = hash(kind, parameters, call sequence); non-trivial = the scenario reached its critical step (timed-out begin, sweep of an abandoned " +
			"transaction, failed commit, second finish)",
		Assumptions: []string{"a client that requests a second transaction while still holding one is excluded (documented limitation)", "the hard-coded 30s registry ticker is bypassed by calling the exported sweep"},
		NumCases: func(tier string) int {
			if tier == "thorough" {
				return 2000
			}
			return 200
		},
		Run:         runC17,
		CaseTimeout: 3 * time.Minute,
		HangClass:   "hang",
	})
}

func isClosedErr(err error) bool {
	return err != nil && (strings.Contains(err.Error(), "already committed or rolled back") || strings.Contains(err.Error(), "closed"))
}

func runC17(c *core.Ctx, res *core.Result) {
	r := c.Rand
	cfg := kv.Cfg{MemTableSize: []int64{300, 4096, 1 << 20}[r.Intn(3)], MaxMemTables: r.Range(1, 4), SyncMode: 0, CompactSecs: 3600}
	eng, err := kv.Open(c.Dir+"/db", cfg)
	if err != nil {
		res.Violate("open_error", err.Error(), nil)
		return
	}
	closed := false
	defer func() {
		if !closed {
			eng.Close()
		}
	}()
	kind := c.Idx % 5
	if c.Idx%20 == 11 {
		c17BeginBurst(c, res, eng)
		return
	}
	if c.Idx%20 == 16 {
		c17OverlappingFinishers(c, res, eng)
		return
	}
	if c.Idx%100 == 33 {
		c17InternalBeginLimit(c, res, eng)
		return
	}
	feat := map[string]string{"scenario": []string{"protocol", "concurrent", "abandon", "begin_deadline", "failures"}[kind]}
	leak := func(after string) bool {
		if !lockProbe(eng, 10*time.Second) {
			res.Violate("lock_leaked", fmt.Sprintf("after %s a fresh read-write transaction could not begin within 10s: the database lock is still held", after), feat)
			return true
		}
		res.Count("lock_probes", 1)
		return false
	}
	key := func(i int) []byte { return []byte(fmt.Sprintf("t%02d", i)) }
	critical := 0
	sig := ""
	switch kind {
	case 0: // protocol
		model := kv.NewModel()
		for t := 0; t < r.Range(3, 10) && len(res.Violations) == 0; t++ {
			ro := r.Chance(25)
			tx, err := eng.BeginTransaction(ro)
			if err != nil {
				res.Violate("begin_failed", err.Error(), feat)
				return
			}
			overlay := model.Clone()
			finished := false
			var calls []string
			for s, n := 0, r.Range(2, 9); s < n && len(res.Violations) == 0; s++ {
				k := key(r.Intn(6))
				switch r.Pick(25, 12, 20, 14, 14, 6) {
				case 0:
					v := []byte(fmt.Sprintf("p%d.%d.%d", c.Idx, t, s))
					err := tx.Put(k, v)
					calls = append(calls, fmt.Sprintf("Put->%v", err))
					switch {
					case finished:
						if !isClosedErr(err) {
							res.Violate("use_after_finish", fmt.Sprintf("Put on a finished transaction returned %v (calls: %v)", err, calls), feat)
						}
					case ro:
						if err == nil {
							res.Violate("readonly_tx_wrote", "Put on a read-only transaction succeeded", feat)
						}
					case err != nil:
						res.Violate("tx_error", "Put: "+err.Error(), feat)
					default:
						overlay.Put(k, v)
					}
				case 1:
					err := tx.Delete(k)
					calls = append(calls, fmt.Sprintf("Delete->%v", err))
					switch {
					case finished:
						if !isClosedErr(err) {
							res.Violate("use_after_finish", fmt.Sprintf("Delete on a finished transaction returned %v (calls: %v)", err, calls), feat)
						}
					case ro:
						if err == nil {
							res.Violate("readonly_tx_wrote", "Delete on a read-only transaction succeeded", feat)
						}
					case err != nil:
						res.Violate("tx_error", "Delete: "+err.Error(), feat)
					default:
						overlay.Del(k)
					}
				case 2:
					v, err := tx.Get(k)
					calls = append(calls, fmt.Sprintf("Get->%v", err))
					if finished {
						if !isClosedErr(err) {
							res.Violate("use_after_finish", fmt.Sprintf("Get on a finished transaction returned %s, %v (calls: %v)", kv.Q(v), err, calls), feat)
						}
					} else {
						want, live := overlay.Get(k)
						if (err == nil) != live || (live && !bytes.Equal(v, want)) {
							res.Violate("tx_read_mismatch", fmt.Sprintf("Get(%s) = %s, %v; expected %s live=%v", k, kv.Q(v), err, kv.Q(want), live), feat)
						}
					}
				case 3:
					err := tx.Commit()
					calls = append(calls, fmt.Sprintf("Commit->%v", err))
					if finished {
						critical++
						if !isClosedErr(err) {
							res.Violate("second_finish_accepted", fmt.Sprintf("Commit on a finished transaction returned %v instead of the closed error (calls: %v)", err, calls), feat)
						}
					} else if kv.IsEngineBusy(err) {
						// the engine gave up the commit (log in rotation): a failed transaction, finished, without effect
						res.Count("commits_refused_by_engine", 1)
						finished = true
					} else if err != nil {
						res.Violate("tx_error", "Commit: "+err.Error(), feat)
					} else {
						finished = true
						if !ro {
							model = overlay.Clone()
						}
					}
				case 4:
					err := tx.Rollback()
					calls = append(calls, fmt.Sprintf("Rollback->%v", err))
					if finished {
						critical++
						if !isClosedErr(err) {
							res.Violate("second_finish_accepted", fmt.Sprintf("Rollback on a finished transaction returned %v instead of the closed error (calls: %v)", err, calls), feat)
						}
					} else if err != nil {
						res.Violate("tx_error", "Rollback: "+err.Error(), feat)
					} else {
						finished = true
						overlay = model.Clone()
					}
				case 5:
					it := tx.NewIterator()
					n := 0
					for it.SeekToFirst(); it.Valid(); it.Next() {
						n++
					}
					calls = append(calls, fmt.Sprintf("Scan->%d", n))
					if finished && n > 0 {
						res.Violate("use_after_finish", fmt.Sprintf("an iterator of a finished transaction delivered %d entries", n), feat)
					}
				}
			}
			if !finished {
				if r.Bool() {
					if tx.Commit() == nil && !ro {
						model = overlay.Clone()
					}
				} else {
					tx.Rollback()
				}
			}
			sig += strings.Join(calls, ",") + ";"
			// nothing a finished transaction did afterwards may have changed the data
			for i := 0; i < 6; i++ {
				v, err := eng.Get(key(i))
				want, live := model.Get(key(i))
				if (err == nil) != live || (live && !bytes.Equal(v, want)) {
					res.Violate("finished_tx_side_effect", fmt.Sprintf("after transaction %d (calls %v) key %s reads %s (err %v), model has %s live=%v", t, calls, key(i), kv.Q(v), err, kv.Q(want), live), feat)
					break
				}
			}
			if leak(fmt.Sprintf("transaction %d (calls %v)", t, calls)) {
				return
			}
		}
	case 1: // concurrent clients, at most one transaction each
		reg := transaction.NewRegistryWithTTL(5*time.Second, 2*time.Second, 75, 90)
		verifhook.SetYield(r.U64(), int64([]int{0, 100, 500}[r.Intn(3)]))
		var wg sync.WaitGroup
		n := r.Range(3, 10)
		for g := 0; g < n; g++ {
			wg.Add(1)
			rr := r.Derive(uint64(g + 1))
			go func(g int) {
				defer wg.Done()
				for i := 0; i < 12; i++ {
					ro := rr.Chance(40)
					var tx interfaces.Transaction
					id := ""
					if rr.Bool() {
						t, err := eng.BeginTransaction(ro)
						if err != nil {
							continue
						}
						tx = t
					} else {
						ctx, cancel := context.WithTimeout(context.Background(), 20*time.Second)
						s, err := reg.Begin(ctx, eng, ro)
						cancel()
						if err != nil {
							continue
						}
						id = s
						t, ok := reg.Get(id)
						if !ok {
							continue
						}
						tx = t
					}
					tx.Get(key(rr.Intn(6)))
					if !ro {
						tx.Put(key(rr.Intn(6)), []byte("cv"))
					}
					switch rr.Intn(4) {
					case 0:
						tx.Commit()
					case 1:
						tx.Rollback()
					case 2:
						tx.Commit()
						tx.Rollback()
						tx.Commit()
					case 3:
						tx.Rollback()
						tx.Rollback()
					}
					if id != "" {
						reg.Remove(id)
					}
				}
			}(g)
		}
		wg.Wait()
		verifhook.SetYield(0, 0)
		critical = n
		sig = fmt.Sprint("conc", n)
		reg.GracefulShutdown(context.Background())
		if leak(fmt.Sprintf("%d concurrent clients finished all their transactions", n)) {
			return
		}
	case 2: // abandonment
		idle := 60 * time.Millisecond
		reg := transaction.NewRegistryWithTTL(10*time.Second, idle, 75, 90)
		eng.Put(key(0), []byte("before"))
		how := r.Intn(3)
		ro := r.Chance(30)
		ctx := context.WithValue(context.Background(), "peer", "client-7")
		id, err := reg.Begin(ctx, eng, ro)
		if err != nil {
			res.Violate("begin_failed", err.Error(), feat)
			return
		}
		tx, _ := reg.Get(id)
		if !ro {
			tx.Put(key(0), []byte("abandoned-write"))
			tx.Put(key(1), []byte("abandoned-write"))
		}
		tx.Get(key(0))
		// the client goes away
		switch how {
		case 0:
			time.Sleep(3 * idle)
			reg.(*transaction.RegistryImpl).CleanupStaleTransactions()
			sig = "sweep"
		case 1:
			reg.CleanupConnection("client-7")
			sig = "connection"
		case 2:
			// several abandoned transactions at once (readers share the lock), and in every second instance a
			// shutdown context that has already expired - what a server passes on after "deadline exceeded,
			// forcing stop": every transaction must be rolled back all the same
			extra := 0
			if ro {
				for extra < r.Range(1, 5) {
					if _, err := reg.Begin(ctx, eng, true); err != nil {
						break
					}
					extra++
				}
			}
			sctx := context.Background()
			expired := r.Bool()
			if expired {
				var cancel context.CancelFunc
				sctx, cancel = context.WithTimeout(context.Background(), 0)
				cancel()
			}
			reg.GracefulShutdown(sctx)
			sig = fmt.Sprintf("shutdown(%d more abandoned, context expired=%v)", extra, expired)
		}
		sig += fmt.Sprint(ro)
		critical++
		if leak("an abandoned transaction was cleaned up by " + sig) {
			return
		}
		if _, still := reg.Get(id); still && how != 2 {
			res.Violate("abandoned_tx_still_registered", "the abandoned transaction is still registered after "+sig, feat)
		}
		v, err := eng.Get(key(0))
		if err != nil || string(v) != "before" {
			res.Violate("abandoned_tx_left_trace", fmt.Sprintf("after the abandoned transaction was cleaned up key %s reads %s (err %v), expected \"before\"", key(0), kv.Q(v), err), feat)
		}
		if _, err := eng.Get(key(1)); err == nil {
			res.Violate("abandoned_tx_left_trace", "a key written only by the abandoned transaction exists", feat)
		}
		if err := tx.Commit(); !isClosedErr(err) && how != 2 {
			res.Violate("second_finish_accepted", fmt.Sprintf("Commit of a transaction the server had rolled back returned %v", err), feat)
		}
		if how != 2 {
			reg.GracefulShutdown(context.Background())
		}
	case 3: // begin with a deadline while the lock is held
		reg := transaction.NewRegistry()
		rounds := 6
		if c.Thorough {
			rounds = 12
		}
		for round := 0; round < rounds && len(res.Violations) == 0; round++ {
			holder, err := eng.BeginTransaction(false)
			if err != nil {
				res.Violate("begin_failed", err.Error(), feat)
				return
			}
			var wg sync.WaitGroup
			timedOut := 0
			var mu sync.Mutex
			for w, n := 0, r.Range(1, 4); w < n; w++ {
				wg.Add(1)
				d := time.Duration(r.Range(5, 30)) * time.Millisecond
				ro := r.Chance(30)
				go func() {
					defer wg.Done()
					ctx, cancel := context.WithTimeout(context.Background(), d)
					defer cancel()
					id, err := reg.Begin(ctx, eng, ro)
					if err == nil {
						// granted after all: a well-behaved client finishes it
						if tx, ok := reg.Get(id); ok {
							tx.Rollback()
						}
						reg.Remove(id)
					} else {
						mu.Lock()
						timedOut++
						mu.Unlock()
					}
				}()
			}
			wg.Wait() // every begin request has returned (timed out) while the lock was held
			holder.Commit()
			critical += timedOut
			time.Sleep(time.Duration(r.Range(1, 20)) * time.Millisecond)
			if leak(fmt.Sprintf("round %d: %d begin requests timed out while another client held the lock, and that client then committed", round, timedOut)) {
				return
			}
		}
		sig = fmt.Sprint("deadline", rounds)
		reg.GracefulShutdown(context.Background())
	case 4: // failures
		sub := r.Intn(2)
		if sub == 0 {
			// service requests with invalid arguments in the middle of a transaction
			env, err := startSvc(eng, transaction.NewRegistry(), nil)
			if err != nil {
				res.Inconclusive = err.Error()
				return
			}
			ctx, cancel := ctxT(30 * time.Second)
			resp, err := env.Client.BeginTransaction(ctx, &pb.BeginTransactionRequest{ReadOnly: false})
			if err != nil {
				res.Violate("begin_failed", err.Error(), feat)
				cancel()
				env.Stop()
				return
			}
			env.Client.TxPut(ctx, &pb.TxPutRequest{TransactionId: resp.TransactionId, Key: key(1), Value: []byte("v")})
			bad := [][]byte{nil, bytes.Repeat([]byte("k"), 5000)}[r.Intn(2)]
			switch r.Intn(3) {
			case 0:
				env.Client.TxGet(ctx, &pb.TxGetRequest{TransactionId: resp.TransactionId, Key: bad})
				sig = "txget-bad"
			case 1:
				env.Client.TxPut(ctx, &pb.TxPutRequest{TransactionId: resp.TransactionId, Key: bad, Value: []byte("v")})
				sig = "txput-bad"
			case 2:
				env.Client.TxDelete(ctx, &pb.TxDeleteRequest{TransactionId: resp.TransactionId, Key: bad})
				sig = "txdel-bad"
			}
			// the client then finishes (or finds its handle gone)
			if r.Bool() {
				env.Client.CommitTransaction(ctx, &pb.CommitTransactionRequest{TransactionId: resp.TransactionId})
			} else {
				env.Client.RollbackTransaction(ctx, &pb.RollbackTransactionRequest{TransactionId: resp.TransactionId})
			}
			cancel()
			critical++
			env.Stop()
			if leak("a service transaction that received a request with an invalid key (" + sig + ") and was then finished by its client") {
				return
			}
		} else {
			// commit after the storage was closed: fails, and must still release the lock
			tx, err := eng.BeginTransaction(false)
			if err != nil {
				res.Violate("begin_failed", err.Error(), feat)
				return
			}
			tx.Put(key(2), []byte("never"))
			eng.Close()
			closed = true
			cerr := tx.Commit()
			sig = "commit-after-close"
			critical++
			if cerr == nil {
				res.Count("commit_after_close_succeeded", 1)
			}
			if err := tx.Rollback(); !isClosedErr(err) {
				res.Violate("second_finish_accepted", fmt.Sprintf("Rollback after a (failed) Commit returned %v", err), feat)
			}
			if leak(fmt.Sprintf("a commit that failed in the storage layer (%v)", cerr)) {
				return
			}
		}
	}
	res.Count("critical_steps", int64(critical))
	res.Sig = core.Sig(kind, sig, cfg.String())
	res.Nontrivial = critical > 0
	if c.Idx < 5 {
		res.Sample = map[string]interface{}{"case": c.Idx, "scenario": feat["scenario"], "detail": shorten(sig), "critical_steps": critical}
	}
}

// c17BeginBurst: many clients begin read-only transactions through the registry at the same instant, round
// after round. Every client must get its own handle; after all of them have finished (and every server-side
// cleanup has run) nothing may hold the database lock.
func c17BeginBurst(c *core.Ctx, res *core.Result, eng *engine.EngineFacade) {
	r := c.Rand
	feat := map[string]string{"scenario": "begin_burst"}
	reg := transaction.NewRegistry()
	rounds := 40
	if c.Thorough {
		rounds = 150
	}
	n := r.Range(16, 40)
	for round := 0; round < rounds; round++ {
		ids := make([]string, n)
		errs := make([]error, n)
		start := make(chan struct{})
		var wg sync.WaitGroup
		for i := 0; i < n; i++ {
			wg.Add(1)
			go func(i int) {
				defer wg.Done()
				ctx := context.WithValue(context.Background(), "peer", fmt.Sprintf("client-%d", i))
				<-start
				ids[i], errs[i] = reg.Begin(ctx, eng, true)
			}(i)
		}
		close(start)
		wg.Wait()
		seen := map[string]int{}
		for i, id := range ids {
			if errs[i] != nil {
				res.Violate("begin_failed", fmt.Sprintf("round %d: a read-only Begin failed: %v", round, errs[i]), feat)
				return
			}
			if j, dup := seen[id]; dup {
				res.Violate("transaction_handle_shared", fmt.Sprintf("round %d: clients %d and %d, beginning read-only transactions at the same instant, both received the handle %s", round, j, i, id), feat)
				return
			}
			seen[id] = i
		}
		for _, id := range ids {
			if tx, ok := reg.Get(id); ok {
				tx.Commit()
			}
			reg.Remove(id)
		}
		res.Count("simultaneous_begins", int64(n))
	}
	reg.(*transaction.RegistryImpl).CleanupStaleTransactions()
	reg.GracefulShutdown(context.Background())
	if !lockProbe(eng, 10*time.Second) {
		res.Violate("lock_leaked", fmt.Sprintf("after %d rounds of %d simultaneous read-only begins, all finished, and a registry shutdown, a fresh read-write transaction could not begin within 10s", rounds, n), feat)
		return
	}
	res.Count("lock_probes", 1)
	res.Count("critical_steps", int64(rounds))
	res.Sig = core.Sig("burst", n, rounds)
	res.Nontrivial = true
}

// c17InternalBeginLimit: begin requests whose context never ends by itself give up on the registry's own
// limit (10s) while another client holds the lock; their helper goroutines are granted the lock only after the
// holder has finished, when nobody waits for the result any more. The late grants must be given back.
func c17InternalBeginLimit(c *core.Ctx, res *core.Result, eng *engine.EngineFacade) {
	r := c.Rand
	feat := map[string]string{"scenario": "begin_internal_limit"}
	reg := transaction.NewRegistry()
	idA, err := reg.Begin(context.WithValue(context.Background(), "peer", "holder"), eng, false)
	if err != nil {
		res.Violate("begin_failed", err.Error(), feat)
		return
	}
	txA, _ := reg.Get(idA)
	txA.Put([]byte("held"), []byte("by-A"))
	n := r.Range(1, 3)
	type br struct {
		id  string
		err error
	}
	results := make(chan br, n)
	for i := 0; i < n; i++ {
		ro := r.Chance(40)
		go func(i int) {
			id, err := reg.Begin(context.WithValue(context.Background(), "peer", fmt.Sprintf("waiter-%d", i)), eng, ro)
			results <- br{id, err}
		}(i)
	}
	gaveUp := 0
	for i := 0; i < n; i++ {
		select {
		case b := <-results:
			if b.err != nil {
				gaveUp++
			} else if tx, ok := reg.Get(b.id); ok {
				// granted although A holds the lock: not this statement's business; give it back
				tx.Rollback()
				reg.Remove(b.id)
			}
		case <-time.After(60 * time.Second):
			res.Violate("hang", "a Begin through the registry (context without deadline, another client holding the lock) had not returned after 60s; the registry's own limit is 10s\n"+blockedKevoStacks(), feat)
			return
		}
	}
	if err := txA.Commit(); err != nil {
		res.Violate("commit_failed", "holder's commit: "+err.Error(), feat)
		return
	}
	reg.Remove(idA)
	if !lockProbe(eng, 10*time.Second) {
		res.Violate("lock_leaked", fmt.Sprintf("%d begin requests (contexts without deadline) gave up on the registry's own 10s limit while another client held the lock; after that client committed, a fresh read-write transaction could not begin within 10s: a transaction granted to a request nobody waits for any more still holds the lock\n%s", gaveUp, blockedKevoStacks()), feat)
		return
	}
	res.Count("lock_probes", 1)
	if v, err := eng.Get([]byte("held")); err != nil || string(v) != "by-A" {
		res.Violate("commit_lost", fmt.Sprintf("the holder's committed write reads back as %q, %v", v, err), feat)
		return
	}
	reg.GracefulShutdown(context.Background())
	if !lockProbe(eng, 10*time.Second) {
		res.Violate("lock_leaked", "after the registry shutdown that followed the internal-limit scenario a fresh read-write transaction could not begin within 10s", feat)
		return
	}
	res.Count("lock_probes", 1)
	res.Count("begins_given_up_on_internal_limit", int64(gaveUp))
	res.Count("critical_steps", int64(gaveUp))
	res.Sig = core.Sig("internal_limit", n)
	res.Nontrivial = gaveUp > 0
}

// c17OverlappingFinishers: two finishing calls on one transaction that overlap in time - a client's commit
// racing the server's rollback of the same transaction (sweep, connection cleanup, shutdown), or a retried
// commit. They are made to queue up behind an operation of the same transaction that is still in flight (a
// put of a multi-megabyte value holds the transaction's mutex while it copies). Exactly one may take effect.
func c17OverlappingFinishers(c *core.Ctx, res *core.Result, eng *engine.EngineFacade) {
	r := c.Rand
	feat := map[string]string{"scenario": "overlapping_finishers"}
	rounds := 6
	if c.Thorough {
		rounds = 12
	}
	big := make([]byte, 6<<20)
	for round := 0; round < rounds; round++ {
		tx, err := eng.BeginTransaction(false)
		if err != nil {
			res.Violate("begin_failed", err.Error(), feat)
			return
		}
		k := []byte(fmt.Sprintf("of%02d", round))
		tx.Put(k, []byte("small"))
		var wg sync.WaitGroup
		wg.Add(1)
		go func() { defer wg.Done(); tx.Put([]byte("of-big"), big) }()
		time.Sleep(time.Duration(r.Range(50, 400)) * time.Microsecond)
		second := []string{"rollback", "commit"}[r.Intn(2)]
		var e1, e2 error
		wg.Add(2)
		go func() { defer wg.Done(); e1 = tx.Commit() }()
		go func() {
			defer wg.Done()
			if second == "commit" {
				e2 = tx.Commit()
			} else {
				e2 = tx.Rollback()
			}
		}()
		wg.Wait()
		res.Count("overlapping_finish_pairs", 1)
		_, gerr := eng.Get(k)
		present := gerr == nil
		switch {
		case e1 == nil && e2 == nil:
			res.Violate("second_finish_accepted", fmt.Sprintf("round %d: Commit and %s on one transaction overlapped (both queued behind an in-flight Put of the same transaction) and BOTH returned nil; the transaction's key is present=%v", round, second, present), feat)
			return
		case e1 == nil && !present:
			res.Violate("commit_lost", fmt.Sprintf("round %d: Commit returned nil (the overlapping %s returned %v) but the transaction's key is absent", round, second, e2), feat)
			return
		case e1 != nil && second == "rollback" && e2 == nil && present:
			res.Violate("abandoned_tx_left_trace", fmt.Sprintf("round %d: Rollback returned nil, the overlapping Commit returned %v, yet the transaction's key is present", round, e1), feat)
			return
		}
	}
	if !lockProbe(eng, 10*time.Second) {
		res.Violate("lock_leaked", "after overlapping finishing calls a fresh read-write transaction could not begin within 10s", feat)
		return
	}
	res.Count("lock_probes", 1)
	res.Count("critical_steps", int64(rounds))
	res.Sig = core.Sig("ofin", rounds)
	res.Nontrivial = true
}
