package mon

import (
	"bytes"
	"fmt"
	"os"
	"os/exec"
	"path/filepath"
	"sort"
	"strings"
	"sync"
	"sync/atomic"
	"time"

	"github.com/KevoDB/kevo/pkg/verifhook"
	"github.com/KevoDB/kevo/pkg/wal"

	"verif/internal/core"
	"verif/internal/kv"
)

// c06IOFault: "a write that reports an error took no effect". A child process runs a sequential
// write program with synchronous logging while strace fails chosen fsync(2)/write(2) calls on the
// database files (EIO / ENOSPC). The child journals which units were acknowledged and which returned
// an error, and dumps a full scan before closing. Oracle: the scan before close, and the scan after
// a reopen in another process, equal the model built from the acknowledged units only.
func c06IOFault(c *core.Ctx, res *core.Result) { ioFaultCase(c, res, false) }

// ioFaultCase is shared with C03, which runs it with transactions only ("a failed transaction leaves no trace").
func ioFaultCase(c *core.Ctx, res *core.Result, txOnly bool) {
	r := c.Rand
	if _, err := exec.LookPath("strace"); err != nil {
		res.Inconclusive = "strace not available"
		return
	}
	type fk struct {
		sys, errno string
		onlyLog    bool
	}
	kinds := []fk{{"fsync", "EIO", false}, {"fsync", "EIO", true}, {"write", "ENOSPC", true}, {"write", "EIO", true}, {"fsync", "ENOSPC", false},
		// table/manifest publication and the removal of replaced files (only database files are ever renamed or removed)
		{"rename,renameat,renameat2", "EIO", false}, {"unlink,unlinkat", "EIO", false}}
	k := kinds[r.Intn(len(kinds))]
	sysName := strings.SplitN(k.sys, ",", 2)[0]
	cfg := kv.Cfg{MemTableSize: []int64{1024, 16 * 1024, 1 << 20, 32 << 20}[r.Intn(4)], MaxMemTables: r.Range(1, 4), SyncMode: 2, CompactSecs: 3600}
	o := kv.GenOpts{NOps: r.Range(15, 60), NKeys: r.Range(3, 10), BigValues: r.Chance(25), Maintenance: r.Range(0, 5), Tx: true, Batch: true, BigTxPct: 8}
	if sysName != "fsync" && sysName != "write" {
		// make sure tables are written and replaced while the program runs
		cfg.MemTableSize = []int64{300, 1024, 4096}[r.Intn(3)]
		o.Maintenance = r.Range(6, 14)
	}
	if txOnly {
		o.TxWeight = 70
		o.BigTxPct = 25
		o.Batch = false
	}
	dir := filepath.Join(c.Dir, "db")
	// create the database (and its first log file, which the child re-uses) without faults
	e0, err := kv.Open(dir, cfg)
	if err != nil {
		res.Inconclusive = "open: " + err.Error()
		return
	}
	e0.Close()
	wals, _ := filepath.Glob(filepath.Join(dir, "wal", "*.wal"))
	sort.Strings(wals)
	spec := &kv.ChildSpec{Dir: dir, Cfg: cfg, Seed: r.U64(), Tag: fmt.Sprintf("c%d", c.Idx), Opts: o, KeySeed: r.U64(),
		Journal: filepath.Join(c.Dir, "journal"), PJournal: true, DumpState: filepath.Join(c.Dir, "state")}
	specPath := filepath.Join(c.Dir, "spec.json")
	kv.WriteSpec(spec, specPath)
	tracePath := filepath.Join(c.Dir, "trace.txt")

	if k.onlyLog && len(wals) == 0 {
		k = kinds[0]
	}
	// strace counts calls per thread, and the Go scheduler spreads the calls of one program over many
	// threads: small numbers make sure the fault fires
	when := fmt.Sprint(r.Range(1, 12))
	if k.sys != "fsync" {
		when = fmt.Sprint(r.Range(1, 5))
	}
	if r.Chance(60) {
		when += fmt.Sprintf("+%d", r.Range(1, 9))
	}
	args := []string{"-f", "-qq", "-e", "trace=" + k.sys, "-e", fmt.Sprintf("inject=%s:error=%s:when=%s", k.sys, k.errno, when), "-o", tracePath}
	if k.onlyLog {
		args = append(args, "-P", wals[len(wals)-1])
	}
	args = append(args, c.Self, "crashchild", specPath)
	fdesc := fmt.Sprintf("%s fails with %s (call numbers %s per thread%s)", k.sys, k.errno, when, map[bool]string{true: ", first log file only", false: ", all database files"}[k.onlyLog])
	feat := map[string]string{"kind": "io_fault", "syscall": sysName, "errno": k.errno}
	cmd := exec.Command("strace", args...)
	var eb strings.Builder
	cmd.Stderr = &eb
	if err := cmd.Start(); err != nil {
		res.Inconclusive = "strace failed to start: " + err.Error()
		return
	}
	done := make(chan error, 1)
	go func() { done <- cmd.Wait() }()
	select {
	case <-done:
	case <-time.After(2 * time.Minute):
		cmd.Process.Kill()
		<-done
		res.Inconclusive = "run under strace timed out"
		return
	}
	tb, _ := os.ReadFile(tracePath)
	injected := strings.Count(string(tb), "(INJECTED)")
	j := kv.ReadJournal(spec.Journal)
	res.Count("io_fault_runs", 1)
	res.Count("io_faults_injected", int64(injected))
	res.Count("io_fault_"+sysName+"_"+k.errno, int64(injected))
	res.Sig = core.Sig("io", sysName, k.errno, k.onlyLog, when, cfg.MemTableSize, len(j.Errored))
	if _, serr := os.Stat(spec.Journal); serr != nil {
		st := eb.String()
		if len(st) > 600 {
			st = st[len(st)-600:]
		}
		res.Inconclusive = "strace did not run the program (no journal): " + st
		return
	}
	if !j.Opened {
		// the fault hit the open itself: nothing was issued
		res.Count("io_fault_during_open", 1)
		return
	}
	if !j.Clean {
		st := eb.String()
		if len(st) > 1500 {
			st = st[len(st)-1500:]
		}
		res.Inconclusive = "the program under I/O faults did not finish: " + st
		return
	}
	units := []kv.Op{}
	for _, op := range kv.ProgramOf(spec) {
		if kv.IsUnit(op) {
			units = append(units, op)
		}
	}
	model := kv.NewModel()
	var failed []int
	for i, u := range units {
		switch {
		case j.Acked[i]:
			kv.ApplyUnit(model, u)
		default:
			if _, ok := j.Errored[i]; ok {
				failed = append(failed, i)
			}
		}
	}
	res.Count("units_acknowledged", int64(len(j.Acked)))
	res.Count("units_failed", int64(len(failed)))
	res.Nontrivial = injected > 0 && (len(failed) > 0 || (sysName != "fsync" && sysName != "write"))
	// what a failed unit would have left behind, per key
	type fw struct {
		unit int
		sig  string // "" = deletion
	}
	failedWrites := map[string][]fw{}
	allKeys := map[string]bool{}
	for i, u := range units {
		m := kv.NewModel()
		kv.ApplyUnit(m, u)
		for key := range m.Ever {
			allKeys[key] = true
			if _, bad := j.Errored[i]; bad {
				if v, live := m.M[key]; live {
					failedWrites[key] = append(failedWrites[key], fw{i, kv.ValSig(v)})
				} else {
					failedWrites[key] = append(failedWrites[key], fw{i, ""})
				}
			}
		}
	}
	judge := func(where string, got map[string]string, classFailed string) bool {
		var keys []string
		for key := range allKeys {
			keys = append(keys, key)
		}
		for key := range got {
			if !allKeys[key] {
				keys = append(keys, key)
			}
		}
		sort.Strings(keys)
		for _, key := range keys {
			want := ""
			if v, live := model.M[key]; live {
				want = kv.ValSig(v)
			}
			g := got[key]
			if g == want {
				continue
			}
			show := func(s string) string {
				if s == "" {
					return "absent"
				}
				return "value(len hash)=" + s
			}
			for _, f := range failedWrites[key] {
				if f.sig == g {
					res.Violate(classFailed, fmt.Sprintf("%s; config %s: unit %d (%s) returned the error %q, yet %s key %s is %s - what that unit wrote; the acknowledged units alone leave it %s (%d units acknowledged, %d failed)",
						fdesc, cfg, f.unit, units[f.unit].Kind, j.Errored[f.unit], where, kv.Q([]byte(key)), show(g), show(want), len(j.Acked), len(failed)), feat)
					return false
				}
			}
			res.Violate("state_wrong_after_io_error", fmt.Sprintf("%s; config %s: %s key %s is %s, the acknowledged units leave it %s, and no failed unit explains it (%d units acknowledged, %d failed)",
				fdesc, cfg, where, kv.Q([]byte(key)), show(g), show(want), len(j.Acked), len(failed)), feat)
			return false
		}
		return true
	}
	if dump, ok := kv.ReadStateDump(spec.DumpState); ok {
		res.Count("states_compared_before_close", 1)
		if !judge("in the same process, before close,", dump, "failed_write_took_effect") {
			return
		}
	}
	// reopen in this process
	e2, err := kv.Open(dir, cfg)
	if err != nil {
		res.Violate("reopen_failed_after_io_error", fmt.Sprintf("%s; config %s: the database does not open any more: %v", fdesc, cfg, err), feat)
		return
	}
	defer e2.Close()
	got := map[string]string{}
	it, err := e2.GetIterator()
	if err != nil {
		res.Inconclusive = "iterator: " + err.Error()
		return
	}
	it.SeekToFirst()
	for _, p := range kv.Drain(it, 1<<22) {
		if !p.Tomb {
			got[string(p.K)] = kv.ValSig(p.V)
		}
	}
	res.Count("states_compared_after_reopen", 1)
	judge("after a restart", got, "failed_write_recovered")
	if c.Idx < 40 && len(failed) > 0 && res.Sample == nil {
		res.Sample = map[string]interface{}{"case": c.Idx, "kind": "io_fault", "fault": fdesc, "units": len(units), "acknowledged": len(j.Acked), "failed": len(failed), "first_error": j.Errored[failed[0]]}
	}
}

// c06RotationRace: "a write that reports an error took no effect", without any I/O fault. The writer is parked
// inside WAL.Append after its record has been written and before the sync; a flush starts rotating the log
// (marks it as rotating, then waits for the writer's lock); the writer is released, and the rotation is held
// back a little longer (parked behind its flush of the old log) so that the writer's retries run out. If the
// write then reports an error, neither the running engine nor the next recovery may show it.
func c06RotationRace(c *core.Ctx, res *core.Result) {
	r := c.Rand
	cfg := kv.Cfg{MemTableSize: 1024, MaxMemTables: 4, SyncMode: []int{2, 1}[r.Intn(2)], SyncBytes: 1, CompactSecs: 3600}
	dir := filepath.Join(c.Dir, "db")
	eng, err := kv.Open(dir, cfg)
	if err != nil {
		res.Violate("open_error", err.Error(), nil)
		return
	}
	closed := false
	var armed, flushParked, fParked, mAtRot, mParked atomic.Bool
	parkFlush, parkF, parkM := make(chan struct{}), make(chan struct{}), make(chan struct{})
	var once1, once2, once3 sync.Once
	releaseAll := func() {
		once1.Do(func() { close(parkFlush) })
		once2.Do(func() { close(parkF) })
		once3.Do(func() { close(parkM) })
	}
	defer func() {
		armed.Store(false)
		releaseAll()
		verifhook.Set(nil)
		if !closed {
			eng.Close()
		}
	}()
	var wantWriter atomic.Bool
	verifhook.Set(func(site string) {
		if !armed.Load() {
			return
		}
		switch site {
		case "storage.flush.begin": // the background flush has taken its list of full tables and is about to rotate the log
			if flushParked.CompareAndSwap(false, true) {
				<-parkFlush
			}
		case "wal.append.before_sync", "wal.batch.before_sync":
			if wantWriter.Load() && fParked.CompareAndSwap(false, true) {
				<-parkF
			}
		case "storage.rotate.after_newwal":
			mAtRot.Store(true)
		case "storage.rotate.after_oldflush":
			if mParked.CompareAndSwap(false, true) {
				<-parkM
			}
		}
	})
	armed.Store(true)
	waitFor := func(b *atomic.Bool) bool {
		for i := 0; i < 5000 && !b.Load(); i++ {
			time.Sleep(time.Millisecond)
		}
		return b.Load()
	}
	// fill a memtable: the background flush starts and is parked behind its snapshot of the full tables
	nk := r.Range(2, 6)
	for i := 0; i < 40 && !flushParked.Load(); i++ {
		eng.Put([]byte(fmt.Sprintf("k%02d", i%nk)), []byte(fmt.Sprintf("c%d/base%d|%s", c.Idx, i, strings.Repeat("x", 100))))
		time.Sleep(time.Millisecond)
	}
	if !waitFor(&flushParked) {
		res.Inconclusive = "no background flush started"
		return
	}
	victimKey := []byte(fmt.Sprintf("k%02d", r.Intn(nk+2))) // an existing or a new key
	victimVal := []byte(fmt.Sprintf("c%d/victim", c.Idx))
	del := r.Chance(30)
	before, berr := eng.Get(victimKey)
	wantWriter.Store(true)
	fdone := make(chan error, 1)
	asTx := !del && r.Chance(35)
	go func() {
		switch {
		case del:
			fdone <- eng.Delete(victimKey)
		case asTx:
			tx, e := eng.BeginTransaction(false)
			if e != nil {
				fdone <- e
				return
			}
			tx.Put(victimKey, victimVal)
			tx.Put([]byte("tx-second-key"), victimVal)
			fdone <- tx.Commit()
		default:
			fdone <- eng.Put(victimKey, victimVal)
		}
	}()
	if !waitFor(&fParked) {
		res.Inconclusive = "the writer never reached the point between log write and sync"
		return
	}
	once1.Do(func() { close(parkFlush) }) // the flush goes on: marks the log as rotating, creates the next one, waits for the writer's log lock
	waitFor(&mAtRot)
	time.Sleep(3 * time.Millisecond)
	once2.Do(func() { close(parkF) })
	werr := <-fdone
	time.Sleep(5 * time.Millisecond)
	once3.Do(func() { close(parkM) })
	armed.Store(false)
	verifhook.Set(nil)
	eng.FlushImMemTables() // (waits for the background flush through the flush lock)
	res.Count("rotation_race_scenarios", 1)
	what := "Put"
	if del {
		what = "Delete"
	} else if asTx {
		what = "a transaction's Commit writing"
	}
	res.Nontrivial = true
	feat := map[string]string{"kind": "rotation_race", "sync": fmt.Sprint(cfg.SyncMode)}
	res.Sig = core.Sig("rotrace", cfg.SyncMode, del, werr != nil, nk)
	if werr == nil {
		// the retries were in time: the write succeeded and must be there (exactly once is checked by the histories)
		res.Count("rotation_race_write_succeeded", 1)
		return
	}
	res.Count("rotation_race_write_failed", 1)
	res.Nontrivial = true
	judge := func(where string, e interface {
		Get([]byte) ([]byte, error)
	}, class string) bool {
		got, gerr := e.Get(victimKey)
		same := (gerr != nil) == (berr != nil) && (gerr != nil || bytes.Equal(got, before))
		if !same {
			res.Violate(class, fmt.Sprintf("config %s: %s(%s) was inside WAL.Append (record written, not yet synced) when a flush marked the log as rotating; the call returned the error %q, yet %s the key reads %s (err %v) - before the call it read %s (err %v)",
				cfg, what, kv.Q(victimKey), werr, where, kv.Q(got), gerr, kv.Q(before), berr), feat)
			return false
		}
		return true
	}
	if !judge("in the running engine", eng, "failed_write_took_effect") {
		return
	}
	eng.Close()
	closed = true
	e2, err := kv.Open(dir, cfg)
	if err != nil {
		res.Violate("reopen_failed_after_io_error", "reopen: "+err.Error(), feat)
		return
	}
	defer e2.Close()
	judge("after a restart", e2, "failed_write_recovered")
}

// c08BatchVsRotation: a batch is parked inside WAL.AppendBatch after its records were written and before the
// log's sequence counter is advanced; a background flush then rotates the log, handing the counter over to
// the next log (it has to wait for the batch); the batch is released; the next write goes to the new log.
// It must be stamped above the batch.
func c08BatchVsRotation(c *core.Ctx, res *core.Result) {
	r := c.Rand
	cfg := kv.Cfg{MemTableSize: 1024, MaxMemTables: 4, SyncMode: []int{0, 1}[r.Intn(2)], SyncBytes: 1 << 20, CompactSecs: 3600}
	dir := filepath.Join(c.Dir, "db")
	eng, err := kv.Open(dir, cfg)
	if err != nil {
		res.Violate("open_error", err.Error(), nil)
		return
	}
	var armed, flushParked, fParked, mAtRot, wantWriter atomic.Bool
	parkFlush, parkF := make(chan struct{}), make(chan struct{})
	var once1, once2 sync.Once
	defer func() {
		armed.Store(false)
		once1.Do(func() { close(parkFlush) })
		once2.Do(func() { close(parkF) })
		verifhook.Set(nil)
		eng.Close()
	}()
	verifhook.Set(func(site string) {
		if !armed.Load() {
			return
		}
		switch site {
		case "storage.flush.begin":
			if flushParked.CompareAndSwap(false, true) {
				<-parkFlush
			}
		case "wal.batch.after_write":
			if wantWriter.Load() && fParked.CompareAndSwap(false, true) {
				<-parkF
			}
		case "storage.rotate.after_newwal":
			mAtRot.Store(true)
		}
	})
	armed.Store(true)
	waitFor := func(b *atomic.Bool) bool {
		for i := 0; i < 5000 && !b.Load(); i++ {
			time.Sleep(time.Millisecond)
		}
		return b.Load()
	}
	for i := 0; i < 40 && !flushParked.Load(); i++ {
		eng.Put([]byte(fmt.Sprintf("k%02d", i%5)), []byte(fmt.Sprintf("c%d/base%d|%s", c.Idx, i, strings.Repeat("x", 100))))
		time.Sleep(time.Millisecond)
	}
	if !waitFor(&flushParked) {
		res.Inconclusive = "no background flush started"
		return
	}
	batchVal := fmt.Sprintf("c%d/batch", c.Idx)
	nb := r.Range(1, 4)
	var ents []*wal.Entry
	for i := 0; i < nb; i++ {
		ents = append(ents, &wal.Entry{Type: wal.OpTypePut, Key: []byte(fmt.Sprintf("b%d", i)), Value: []byte(batchVal)})
	}
	wantWriter.Store(true)
	fdone := make(chan error, 1)
	go func() { fdone <- eng.ApplyBatch(ents) }()
	if !waitFor(&fParked) {
		res.Inconclusive = "the batch never reached the point between its log write and the counter update"
		return
	}
	once1.Do(func() { close(parkFlush) })
	waitFor(&mAtRot)
	time.Sleep(4 * time.Millisecond) // the rotation is handing the counter over (it has to wait for the batch)
	once2.Do(func() { close(parkF) })
	berr := <-fdone
	armed.Store(false)
	verifhook.Set(nil)
	eng.FlushImMemTables()
	nextVal := fmt.Sprintf("c%d/next", c.Idx)
	perr := eng.Put([]byte("z"), []byte(nextVal))
	res.Count("batch_vs_rotation_scenarios", 1)
	res.Sig = core.Sig("batchrot", cfg.SyncMode, nb)
	res.Nontrivial = true
	if berr != nil || perr != nil {
		return // a refused write has no sequence number to compare
	}
	eng.Close()
	entsLog, err := readLogSeq(filepath.Join(dir, "wal"))
	if err != nil {
		res.Violate("log_unreadable", err.Error(), nil)
		return
	}
	var bseq, nseq uint64
	for _, e := range entsLog {
		switch e.val {
		case batchVal:
			bseq = e.seq
		case nextVal:
			nseq = e.seq
		}
	}
	if bseq == 0 || nseq == 0 {
		res.Violate("acknowledged_write_not_in_log", fmt.Sprintf("config %s: batch stamped %d, next put stamped %d (0 = not found in the log)", cfg, bseq, nseq), map[string]string{"mode": "batch_vs_rotation"})
		return
	}
	if nseq <= bseq {
		res.Violate("sequence_not_increasing", fmt.Sprintf("config %s: a batch of %d was inside WAL.AppendBatch (records written, counter not yet advanced) while a background flush rotated the log; the batch was acknowledged with sequence %d, the put issued after it (in the new log) is stamped %d", cfg, nb, bseq, nseq), map[string]string{"mode": "batch_vs_rotation"})
	}
}
