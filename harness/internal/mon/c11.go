package mon

import (
	"bytes"
	"fmt"
	"os"
	"path/filepath"
	"sort"

	"github.com/KevoDB/kevo/pkg/sstable"

	"verif/internal/core"
	"verif/internal/kv"
)

type sstEntry struct {
	K, V []byte // V == nil: deletion marker
	Seq  uint64
}

func init() {
	core.Register(&core.Monitor{
		ID:    "C11",
		Level: "exploration",
		Rule: "ascending entry sets (1 entry to tens of 64KB blocks; ASCII/binary/long-shared-prefix/1-byte..4KB keys, a few 60KB keys; values 0..200KB incl. empty non-nil; " +
			"tombstones at PRNG positions; arbitrary uint64 sequence numbers) written with sstable.Writer and read back with sstable.Reader: forward iteration, Seek for written keys/" +
			"neighbours/before-first/after-last/block-boundary keys + following Next run, SeekToLast, Reader.Get for present and absent keys; then single-byte corruptions " +
			"(bit flip/0x00/0xFF/+1) stratified over data blocks, bloom region, index and footer: open error, short iteration, or only written entries. " +
			"Entries are handed to the writer in scratch buffers overwritten after each call; 12% of the large values are 1.1-2.6MB; every third seek re-uses the previous iterator. distinct = hash(entry count, key class, block count); non-trivial = table read back completely and >= 1 corruption evaluated",
		Assumptions: []string{"keys non-empty (the format cannot represent an empty key), at most 65535 bytes", "a panic while reading a damaged table is reported as a violation (neither an error nor written entries)"},
		NumCases: func(tier string) int {
			if tier == "thorough" {
				return 4000
			}
			return 300
		},
		Run:        runC11,
		MemLimitGB: 12,
	})
}

func genSST(r *core.Rand, thorough bool) ([]sstEntry, string) {
	var n int
	switch r.Pick(2, 6, 6, 3, 1) {
	case 0:
		n = 1
	case 1:
		n = r.Range(2, 40)
	case 2:
		n = r.Range(41, 600)
	case 3:
		n = r.Range(600, 4000)
	case 4:
		n = r.Range(4000, 9000)
		if thorough {
			n = r.Range(4000, 30000)
		}
	}
	class := r.Pick(4, 3, 3, 2, 2)
	className := []string{"ascii", "binary", "prefix", "short", "long"}[class]
	set := map[string]bool{}
	prefix := bytes.Repeat([]byte{'q'}, r.Range(30, 400))
	for len(set) < n {
		var k []byte
		switch class {
		case 0:
			k = []byte(fmt.Sprintf("key-%08d", r.Intn(n*8+10)))
		case 1:
			k = r.Bytes(r.Range(1, 12))
			if r.Chance(30) {
				k[0] = []byte{0x00, 0xff}[r.Intn(2)]
			}
		case 2:
			k = append(append([]byte{}, prefix...), []byte(fmt.Sprintf("%07d", r.Intn(n*8+10)))...)
		case 3:
			k = r.Bytes(r.Range(1, 3))
			if n > 60000 {
				n = 60000
			}
		case 4:
			l := r.Range(500, 4096)
			if r.Chance(2) {
				l = 60000
			}
			k = append(bytes.Repeat([]byte{byte('a' + r.Intn(2))}, l-8), r.Bytes(8)...)
			if n > 800 {
				n = 800
			}
		}
		set[string(k)] = true
	}
	keys := make([]string, 0, len(set))
	for k := range set {
		keys = append(keys, k)
	}
	sort.Strings(keys)
	ents := make([]sstEntry, 0, len(keys))
	big := 0
	for i, k := range keys {
		e := sstEntry{K: []byte(k)}
		switch r.Pick(2, 1, 8) {
		case 0:
			e.Seq = r.U64()
		case 1:
			e.Seq = 0
		case 2:
			e.Seq = uint64(r.Intn(1 << 20))
		}
		switch r.Pick(12, 6, 50, 20, 3, 1) {
		case 0:
			e.V = nil // tombstone
		case 1:
			e.V = []byte{}
		case 2:
			e.V = []byte(fmt.Sprintf("v%d-%x", i, r.U64()))
		case 3:
			e.V = r.Bytes(r.Range(50, 900))
		case 4:
			e.V = r.Bytes(r.Range(3000, 20000))
		case 5:
			if big < 3 {
				big++
				e.V = r.Bytes(r.Range(60000, 200000))
				if r.Chance(12) {
					// a value far beyond the block size: the writer cuts a block only after the entry that crosses 64KB
					e.V = r.Bytes(r.Range(1100000, 2600000))
				}
			} else {
				e.V = []byte("x")
			}
		}
		ents = append(ents, e)
	}
	return ents, className
}

func sameVal(a, b []byte) bool {
	if (a == nil) != (b == nil) {
		return false
	}
	return bytes.Equal(a, b)
}

func runC11(c *core.Ctx, res *core.Result) {
	r := c.Rand
	ents, class := genSST(r, c.Thorough)
	path := filepath.Join(c.Dir, "0_000001_00000000000000000001.sst")
	w, err := sstable.NewWriter(path)
	if err != nil {
		res.Inconclusive = "cannot create writer: " + err.Error()
		return
	}
	// entries are handed over in scratch buffers that are overwritten as soon as the call returns, the way a
	// bulk loader reuses its buffers (nil stays nil: it marks a deletion)
	kbuf, vbuf := make([]byte, 0, 64), make([]byte, 0, 64)
	for _, e := range ents {
		kbuf = append(kbuf[:0], e.K...)
		var vb []byte
		if e.V != nil {
			vbuf = append(vbuf[:0], e.V...)
			vb = vbuf[:len(e.V):len(e.V)]
		}
		err := w.AddWithSequence(kbuf, vb, e.Seq)
		for i := range kbuf {
			kbuf[i] ^= 0x5a
		}
		for i := range vbuf {
			vbuf[i] ^= 0xa5
		}
		if err != nil {
			res.Violate("write_error", fmt.Sprintf("AddWithSequence(%s) failed on an ascending entry set: %v", kv.Q(e.K), err), map[string]string{"key_class": class})
			return
		}
	}
	if err := w.Finish(); err != nil {
		res.Violate("write_error", fmt.Sprintf("Finish failed: %v", err), map[string]string{"key_class": class})
		return
	}
	st, _ := os.Stat(path)
	res.Count("entries", int64(len(ents)))
	res.Count("bytes", st.Size())
	feat := map[string]string{"key_class": class, "entries": fmt.Sprint(len(ents))}
	desc := fmt.Sprintf("table: %d entries, key class %s, %d bytes", len(ents), class, st.Size())

	rd, err := sstable.OpenReader(path)
	if err != nil {
		res.Violate("open_error", desc+": OpenReader failed on an undamaged table: "+err.Error(), feat)
		return
	}
	defer rd.Close()

	// 1. forward iteration
	it := rd.NewIterator()
	i := 0
	for it.SeekToFirst(); it.Valid(); it.Next() {
		if i >= len(ents) {
			res.Violate("iteration_mismatch", fmt.Sprintf("%s: iteration delivers more than the %d written entries (extra key %s)", desc, len(ents), kv.Q(it.Key())), feat)
			return
		}
		e := ents[i]
		if !bytes.Equal(it.Key(), e.K) || !sameVal(it.Value(), e.V) || it.IsTombstone() != (e.V == nil) || it.SequenceNumber() != e.Seq {
			res.Violate("iteration_mismatch", fmt.Sprintf("%s: entry %d read back as key=%s value=%s tomb=%v seq=%d, written key=%s value=%s tomb=%v seq=%d",
				desc, i, kv.Q(it.Key()), kv.Q(it.Value()), it.IsTombstone(), it.SequenceNumber(), kv.Q(e.K), kv.Q(e.V), e.V == nil, e.Seq), feat)
			return
		}
		i++
	}
	if i != len(ents) {
		res.Violate("iteration_mismatch", fmt.Sprintf("%s: iteration ended after %d of %d entries (error: %v)", desc, i, len(ents), it.Error()), feat)
		return
	}
	// block boundaries: where the writer's estimated block size wraps (observed through key count only) -
	// we simply include every 50th key plus neighbours, which covers boundaries for all block sizes
	// 2. seeks
	var targets [][]byte
	addT := func(k []byte) {
		targets = append(targets, k)
		if len(k) > 0 {
			p := append([]byte{}, k...)
			if p[len(p)-1] > 0 {
				p[len(p)-1]--
				targets = append(targets, append(p, 0xff))
			} else {
				targets = append(targets, p[:len(p)-1])
			}
		}
		targets = append(targets, append(append([]byte{}, k...), 0x00))
	}
	if len(ents) <= 150 {
		for _, e := range ents {
			addT(e.K)
		}
	} else {
		for j := 0; j < 120; j++ {
			addT(ents[r.Intn(len(ents))].K)
		}
		// consecutive runs to cross block boundaries
		s := r.Intn(len(ents))
		for j := s; j < len(ents) && j < s+40; j++ {
			addT(ents[j].K)
		}
	}
	targets = append(targets, []byte{0x00}, bytes.Repeat([]byte{0xff}, 70), ents[0].K, ents[len(ents)-1].K)
	var reuse *sstable.Iterator
	nseek := 0
	for _, t := range targets {
		if len(t) == 0 {
			continue
		}
		idx := sort.Search(len(ents), func(i int) bool { return bytes.Compare(ents[i].K, t) >= 0 })
		// every third seek re-uses the iterator of the previous one (already positioned somewhere else, possibly
		// many blocks away, possibly exhausted)
		it := reuse
		if it == nil || nseek%3 != 2 {
			it = rd.NewIterator()
		} else {
			res.Count("seeks_on_a_positioned_iterator", 1)
		}
		nseek++
		reuse = it
		ok := it.Seek(t)
		res.Count("seeks", 1)
		if idx == len(ents) {
			if ok || it.Valid() {
				res.Violate("seek_mismatch", fmt.Sprintf("%s: Seek(%s) should be invalid (target after last key) but is at %s", desc, kv.Q(t), kv.Q(it.Key())), feat)
				return
			}
			continue
		}
		if !it.Valid() || !bytes.Equal(it.Key(), ents[idx].K) {
			res.Violate("seek_mismatch", fmt.Sprintf("%s: Seek(%s) landed on %s (valid=%v), first entry >= target is %s (index %d)", desc, kv.Q(t), kv.Q(it.Key()), it.Valid(), kv.Q(ents[idx].K), idx), feat)
			return
		}
		// the following Next run (bounded)
		run := 25
		for j := idx; j < len(ents) && j < idx+run; j++ {
			if !it.Valid() || !bytes.Equal(it.Key(), ents[j].K) || !sameVal(it.Value(), ents[j].V) || it.SequenceNumber() != ents[j].Seq {
				res.Violate("seek_mismatch", fmt.Sprintf("%s: after Seek(%s) step %d is %s=%s seq=%d valid=%v, expected %s=%s seq=%d", desc, kv.Q(t), j-idx, kv.Q(it.Key()), kv.Q(it.Value()), it.SequenceNumber(), it.Valid(), kv.Q(ents[j].K), kv.Q(ents[j].V), ents[j].Seq), feat)
				return
			}
			it.Next()
		}
		if idx+run >= len(ents) && it.Valid() {
			res.Violate("seek_mismatch", fmt.Sprintf("%s: after Seek(%s) iteration continues past the last entry with %s", desc, kv.Q(t), kv.Q(it.Key())), feat)
			return
		}
	}
	// 3. SeekToLast
	it = rd.NewIterator()
	it.SeekToLast()
	last := ents[len(ents)-1]
	if !it.Valid() || !bytes.Equal(it.Key(), last.K) || !sameVal(it.Value(), last.V) {
		res.Violate("seek_mismatch", fmt.Sprintf("%s: SeekToLast is at %s (valid=%v), last entry is %s", desc, kv.Q(it.Key()), it.Valid(), kv.Q(last.K)), feat)
		return
	}
	// 4. point lookups
	byKey := map[string]sstEntry{}
	for _, e := range ents {
		byKey[string(e.K)] = e
	}
	for _, t := range targets {
		if len(t) == 0 {
			continue
		}
		v, err := rd.Get(t)
		res.Count("gets", 1)
		e, present := byKey[string(t)]
		if present {
			if err != nil || !sameVal(v, e.V) {
				res.Violate("get_mismatch", fmt.Sprintf("%s: Get(%s) = %s err=%v, written %s", desc, kv.Q(t), kv.Q(v), err, kv.Q(e.V)), feat)
				return
			}
		} else if err == nil {
			res.Violate("get_mismatch", fmt.Sprintf("%s: Get(%s) = %s for a key that was not written", desc, kv.Q(t), kv.Q(v)), feat)
			return
		}
	}
	rd.Close()

	// 5. corruption
	data, err := os.ReadFile(path)
	if err != nil {
		return
	}
	ncorr := 60
	if c.Thorough {
		ncorr = 100
	}
	if len(data) <= 2000 {
		ncorr = len(data) // every position, one value class each (class rotates)
		if ncorr > 600 {
			ncorr = 600
		}
	}
	cpath := filepath.Join(c.Dir, "0_000002_00000000000000000002.sst")
	evaluated := 0
	for j := 0; j < ncorr; j++ {
		var pos int
		if len(data) <= 2000 && ncorr == len(data) {
			pos = j
		} else {
			switch r.Pick(4, 3, 3) {
			case 0:
				pos = r.Intn(len(data))
			case 1: // footer + index + bloom region: the tail of the file
				t := 400 + len(ents)/8
				if t > len(data) {
					t = len(data)
				}
				pos = len(data) - 1 - r.Intn(t)
			case 2: // start of file / first block headers
				t := 256
				if t > len(data) {
					t = len(data)
				}
				pos = r.Intn(t)
			}
		}
		mut := append([]byte{}, data...)
		old := mut[pos]
		switch r.Intn(4) {
		case 0:
			mut[pos] ^= 1 << uint(r.Intn(8))
		case 1:
			mut[pos] = 0x00
		case 2:
			mut[pos] = 0xff
		case 3:
			mut[pos]++
		}
		if mut[pos] == old {
			mut[pos] ^= 0x10
		}
		os.WriteFile(cpath, mut, 0644)
		evaluated++
		res.Count("corruptions", 1)
		msg := checkCorrupt(cpath, byKey, len(ents), res)
		if msg != "" {
			f2 := map[string]string{"key_class": class, "corrupt_region": regionOf(pos, len(data))}
			res.Violate("corrupt_table_fabricates", fmt.Sprintf("%s; byte %d of %d changed from 0x%02x to 0x%02x: %s", desc, pos, len(data), old, mut[pos], msg), f2)
			return
		}
	}
	os.Remove(cpath)
	blocks := st.Size()/65536 + 1
	res.Sig = core.Sig(len(ents), class, blocks)
	res.Nontrivial = evaluated > 0
	if c.Idx < 2 {
		res.Sample = map[string]interface{}{"case": c.Idx, "entries": len(ents), "key_class": class, "file_bytes": st.Size(),
			"first_key": kv.Q(ents[0].K), "last_key": kv.Q(last.K), "seek_targets": len(targets), "corruptions": evaluated}
	}
}

func regionOf(pos, n int) string {
	switch {
	case pos >= n-64:
		return "footer"
	case pos >= n-2048:
		return "tail"
	default:
		return "body"
	}
}

// checkCorrupt reads a damaged table; everything it delivers must have been written.
func checkCorrupt(path string, byKey map[string]sstEntry, n int, res *core.Result) (msg string) {
	defer func() {
		if p := recover(); p != nil {
			msg = fmt.Sprintf("panic while reading the damaged table: %v", p)
		}
	}()
	rd, err := sstable.OpenReader(path)
	if err != nil {
		res.Count("corrupt_open_errors", 1)
		return ""
	}
	defer rd.Close()
	it := rd.NewIterator()
	steps := 0
	for it.SeekToFirst(); it.Valid(); it.Next() {
		steps++
		if steps > 3*n+50 {
			return fmt.Sprintf("iteration does not terminate (%d steps for a table of %d entries)", steps, n)
		}
		e, ok := byKey[string(it.Key())]
		if !ok {
			return fmt.Sprintf("iteration delivers key %s which was never written", kv.Q(it.Key()))
		}
		if !sameVal(it.Value(), e.V) || it.SequenceNumber() != e.Seq || it.IsTombstone() != (e.V == nil) {
			return fmt.Sprintf("iteration delivers %s=%s tomb=%v seq=%d, written value=%s tomb=%v seq=%d", kv.Q(it.Key()), kv.Q(it.Value()), it.IsTombstone(), it.SequenceNumber(), kv.Q(e.V), e.V == nil, e.Seq)
		}
	}
	if steps == n {
		res.Count("corrupt_complete_iterations", 1)
	} else {
		res.Count("corrupt_short_iterations", 1)
	}
	// a few point lookups
	k := 0
	for key, e := range byKey {
		if k >= 6 {
			break
		}
		k++
		v, err := rd.Get([]byte(key))
		if err == nil && !sameVal(v, e.V) {
			return fmt.Sprintf("Get(%s) = %s on the damaged table, written %s", kv.Q([]byte(key)), kv.Q(v), kv.Q(e.V))
		}
	}
	return ""
}
