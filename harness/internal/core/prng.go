// Package core is the case/worker/orchestrator framework shared by all monitors.
package core

import "fmt"

// Rand is a splitmix64 generator: every random choice of a run derives from
// (VERIF_SEED, property, tier, case index), so a case is reproducible from those.
type Rand struct{ s uint64 }

func NewRand(seed uint64) *Rand { return &Rand{s: seed*0x9E3779B97F4A7C15 + 0x1234567} }

// Derive returns an independent generator for a sub-stream.
func (r *Rand) Derive(tag uint64) *Rand {
	return NewRand(r.s ^ (tag+1)*0xD1342543DE82EF95)
}

func (r *Rand) U64() uint64 {
	r.s += 0x9E3779B97F4A7C15
	z := r.s
	z = (z ^ (z >> 30)) * 0xBF58476D1CE4E5B9
	z = (z ^ (z >> 27)) * 0x94D049BB133111EB
	return z ^ (z >> 31)
}

// Intn returns a value in [0,n).
func (r *Rand) Intn(n int) int {
	if n <= 0 {
		return 0
	}
	return int(r.U64() % uint64(n))
}

// Range returns a value in [lo,hi].
func (r *Rand) Range(lo, hi int) int { return lo + r.Intn(hi-lo+1) }

func (r *Rand) Bool() bool { return r.U64()&1 == 1 }

// Chance is true with probability pct/100.
func (r *Rand) Chance(pct int) bool { return r.Intn(100) < pct }

func (r *Rand) Bytes(n int) []byte {
	b := make([]byte, n)
	for i := 0; i < n; i += 8 {
		x := r.U64()
		for j := 0; j < 8 && i+j < n; j++ {
			b[i+j] = byte(x >> (8 * j))
		}
	}
	return b
}

// Pick returns a weighted choice: weights[i] is the weight of index i.
func (r *Rand) Pick(weights ...int) int {
	t := 0
	for _, w := range weights {
		t += w
	}
	x := r.Intn(t)
	for i, w := range weights {
		if x < w {
			return i
		}
		x -= w
	}
	return len(weights) - 1
}

// HashStr is FNV-1a 64, used for structural signatures.
func HashStr(s string) uint64 {
	h := uint64(0xcbf29ce484222325)
	for i := 0; i < len(s); i++ {
		h = (h ^ uint64(s[i])) * 0x100000001b3
	}
	return h
}

func Sig(parts ...interface{}) string { return fmt.Sprintf("%016x", HashStr(fmt.Sprint(parts...))) }
