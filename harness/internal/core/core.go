package core

import (
	"bufio"
	"bytes"
	"encoding/json"
	"fmt"
	"os"
	"os/exec"
	"path/filepath"
	"runtime"
	"runtime/debug"
	"runtime/pprof"
	"sort"
	"strconv"
	"strings"
	"sync"
	"syscall"
	"time"
)

// Violation is one refutation of the property found while running a case.
type Violation struct {
	Class    string            `json:"class"`
	Features map[string]string `json:"features,omitempty"`
	Detail   string            `json:"detail"`
}

// Result is what a case reports. Counters are summed over cases, Sets are
// unioned (their sizes are reported: distinct hook sites, interleavings ...).
type Result struct {
	Idx          int                 `json:"idx"`
	Violations   []Violation         `json:"violations,omitempty"`
	Inconclusive string              `json:"inconclusive,omitempty"`
	Sig          string              `json:"sig"`
	Nontrivial   bool                `json:"nontrivial"`
	Counters     map[string]int64    `json:"counters,omitempty"`
	Sets         map[string][]string `json:"sets,omitempty"`
	Sample       interface{}         `json:"sample,omitempty"`
	Witness      interface{}         `json:"witness,omitempty"`
	WallMs       int64               `json:"wall_ms"`
}

func (r *Result) Count(k string, n int64) {
	if r.Counters == nil {
		r.Counters = map[string]int64{}
	}
	r.Counters[k] += n
}

func (r *Result) AddSet(k, v string) {
	if r.Sets == nil {
		r.Sets = map[string][]string{}
	}
	for _, x := range r.Sets[k] {
		if x == v {
			return
		}
	}
	if len(r.Sets[k]) < 4096 {
		r.Sets[k] = append(r.Sets[k], v)
	}
}

func (r *Result) Violate(class, detail string, feat map[string]string) {
	if len(r.Violations) < 20 {
		if len(detail) > 30000 {
			detail = detail[:30000] + "...(truncated)"
		}
		r.Violations = append(r.Violations, Violation{Class: class, Features: feat, Detail: detail})
	}
}

// Ctx is what a case gets.
type Ctx struct {
	Prop     string
	Tier     string
	Seed     uint64
	Idx      int
	Dir      string // private scratch directory of this case (removed afterwards)
	Rand     *Rand
	Self     string // path of the running binary (to spawn children)
	Thorough bool
}

// Monitor describes the check of one property.
type Monitor struct {
	ID               string
	Level            string // exploration | fault_enumeration
	Race             bool   // run under the race detector
	RaceThoroughOnly bool
	Rule             string
	Assumptions      []string
	NumCases         func(tier string) int
	Run              func(c *Ctx, r *Result)
	CaseTimeout      time.Duration // watchdog; 0 = 5 min
	HangClass        string        // if set, a watchdog firing is a violation of this class (witness: goroutine dump)
	Workers          int           // 0 = default (14)
	MemLimitGB       int           // address-space limit for workers (0 = none)
	// Guard is called on the aggregate after the run; it returns a non-empty
	// string if the run observed too little to mean anything (harness error, exit 3).
	Guard func(a *Aggregate) string
	// Extra may add monitor-specific keys to the evidence coverage.
	Extra func(a *Aggregate, cov map[string]interface{})
}

var registry = map[string]*Monitor{}

func Register(m *Monitor)    { registry[m.ID] = m }
func Get(id string) *Monitor { return registry[id] }
func IDs() []string {
	var r []string
	for k := range registry {
		r = append(r, k)
	}
	sort.Strings(r)
	return r
}

// ---------------------------------------------------------------------------
// worker side

// WorkerMain runs the cases of one shard and streams results to outPath.
func WorkerMain(args []string) {
	if len(args) < 8 {
		fmt.Fprintln(os.Stderr, "usage: worker ID tier seed shard nshards startAt out scratch")
		os.Exit(2)
	}
	id, tier := args[0], args[1]
	seed, _ := strconv.ParseUint(args[2], 10, 64)
	shard, _ := strconv.Atoi(args[3])
	nshards, _ := strconv.Atoi(args[4])
	startAt, _ := strconv.Atoi(args[5])
	outPath, scratch := args[6], args[7]
	only := -1
	if len(args) > 8 {
		only, _ = strconv.Atoi(args[8])
	}
	m := Get(id)
	if m == nil {
		fmt.Fprintln(os.Stderr, "unknown monitor", id)
		os.Exit(2)
	}
	if m.MemLimitGB > 0 {
		lim := uint64(m.MemLimitGB) << 30
		syscall.Setrlimit(syscall.RLIMIT_AS, &syscall.Rlimit{Cur: lim, Max: lim})
	}
	debug.SetTraceback("all")
	out, err := os.OpenFile(outPath, os.O_WRONLY|os.O_CREATE|os.O_APPEND, 0644)
	if err != nil {
		fmt.Fprintln(os.Stderr, err)
		os.Exit(2)
	}
	self, _ := os.Executable()
	n := m.NumCases(tier)
	timeout := m.CaseTimeout
	if timeout == 0 {
		timeout = 5 * time.Minute
	}
	raceLog := os.Getenv("VERIF_RACELOG")
	var raceSeen int64
	done := 0
	for idx := 0; idx < n; idx++ {
		if only >= 0 {
			if idx != only {
				continue
			}
		} else if idx%nshards != shard || idx < startAt {
			continue
		}
		syscall.Write(int(out.Fd()), []byte(fmt.Sprintf("BEGIN %d\n", idx)))
		dir := filepath.Join(scratch, fmt.Sprintf("c%d", idx))
		os.RemoveAll(dir)
		os.MkdirAll(dir, 0755)
		ctx := &Ctx{Prop: id, Tier: tier, Seed: seed, Idx: idx, Dir: dir, Self: self, Thorough: tier == "thorough",
			Rand: NewRand(seed).Derive(HashStr(id)).Derive(uint64(idx))}
		res := &Result{Idx: idx}
		t0 := time.Now()
		ch := make(chan struct{})
		go func() {
			defer close(ch)
			m.Run(ctx, res)
		}()
		select {
		case <-ch:
		case <-time.After(timeout):
			// watchdog: dump all goroutines to stderr and stop this worker;
			// the orchestrator attributes the hang to this case
			fmt.Fprintf(os.Stderr, "\nVERIF-WATCHDOG case=%d after %s\n", idx, timeout)
			pprof.Lookup("goroutine").WriteTo(os.Stderr, 2)
			os.Exit(97)
		}
		res.WallMs = time.Since(t0).Milliseconds()
		if raceLog != "" {
			if txt, sz := readRaceLog(raceLog, raceSeen); sz > raceSeen {
				raceSeen = sz
				for _, rep := range SplitRaceReports(txt) {
					res.Violate("data_race", rep.Text, map[string]string{"race_pair": rep.Pair})
				}
			}
		}
		b, err := json.Marshal(res)
		if err != nil {
			b, _ = json.Marshal(&Result{Idx: idx, Inconclusive: "result not serialisable: " + err.Error()})
		}
		syscall.Write(int(out.Fd()), append(append([]byte("RESULT "), b...), '\n'))
		os.RemoveAll(dir)
		done++
		// engines leak their background goroutines by design: recycle the worker
		if only < 0 && done >= 40 && runtime.NumGoroutine() > 400 {
			syscall.Write(int(out.Fd()), []byte(fmt.Sprintf("RECYCLE %d\n", idx+1)))
			os.Exit(96)
		}
	}
	syscall.Write(int(out.Fd()), []byte("DONE\n"))
	os.Exit(0)
}

func readRaceLog(prefix string, from int64) (string, int64) {
	path := fmt.Sprintf("%s.%d", prefix, os.Getpid())
	f, err := os.Open(path)
	if err != nil {
		return "", from
	}
	defer f.Close()
	st, _ := f.Stat()
	if st.Size() <= from {
		return "", from
	}
	buf := make([]byte, st.Size()-from)
	f.ReadAt(buf, from)
	return string(buf), st.Size()
}

// RaceReport is one "WARNING: DATA RACE" block with its de-duplication key.
type RaceReport struct {
	Pair string
	Text string
}

// SplitRaceReports cuts race detector output into reports and computes for each
// the sorted pair of the first kevo (or harness) functions of the two stacks.
func SplitRaceReports(txt string) []RaceReport {
	var out []RaceReport
	parts := strings.Split(txt, "WARNING: DATA RACE")
	for _, p := range parts[1:] {
		if i := strings.Index(p, "=================="); i >= 0 {
			p = p[:i]
		}
		var tops []string
		lines := strings.Split(p, "\n")
		inStack := false
		for _, l := range lines {
			t := strings.TrimSpace(l)
			if strings.HasPrefix(t, "Write at") || strings.HasPrefix(t, "Read at") || strings.HasPrefix(t, "Previous write at") || strings.HasPrefix(t, "Previous read at") {
				inStack = true
				continue
			}
			if t == "" {
				inStack = false
				continue
			}
			if inStack && (strings.HasPrefix(t, "github.com/KevoDB/kevo/") || strings.HasPrefix(t, "verif/")) {
				fn := strings.TrimSuffix(t, "()")
				fn = strings.TrimPrefix(fn, "github.com/KevoDB/kevo/")
				tops = append(tops, fn)
				inStack = false
			}
		}
		sort.Strings(tops)
		pair := strings.Join(tops, " <-> ")
		if len(p) > 6000 {
			p = p[:6000]
		}
		out = append(out, RaceReport{Pair: pair, Text: "WARNING: DATA RACE" + p})
	}
	return out
}

// ---------------------------------------------------------------------------
// orchestrator side

// Aggregate is the merged outcome of a run.
type Aggregate struct {
	Results      []*Result
	Counters     map[string]int64
	Sets         map[string]map[string]bool
	Violations   []CaseViolation
	Inconclusive map[string]int
	Distinct     int
	Evaluations  int
	Samples      []interface{}
}

type CaseViolation struct {
	Idx int
	Violation
	Witness interface{}
}

type Options struct {
	Prop, Tier string
	Seed       uint64
	VerifDir   string // /verif
	Only       int    // -1 = all
}

func tail(path string, n int) string {
	b, err := os.ReadFile(path)
	if err != nil {
		return ""
	}
	if len(b) > n {
		b = b[len(b)-n:]
	}
	return string(b)
}

// crashExcerpt returns the part of a dead worker's stderr that says why it died (the Go runtime prints the
// reason first and then every goroutine, which can be megabytes) followed by the tail.
func crashExcerpt(path string) string {
	b, err := os.ReadFile(path)
	if err != nil {
		return ""
	}
	s := "\n" + string(b)
	if len(s) <= 24000 {
		return s
	}
	first := -1
	for _, kw := range []string{"\nfatal error:", "\npanic:", "\nruntime:", "\nSIGQUIT", "\nunexpected fault", "\nWARNING: DATA RACE", "\n[signal "} {
		if i := strings.Index(s, kw); i >= 0 && (first < 0 || i < first) {
			first = i
		}
	}
	if first < 0 || first > len(s)-16000 {
		return s[len(s)-24000:]
	}
	return s[first:first+8000] + "\n[...]\n" + s[len(s)-14000:]
}

type shardState struct {
	shard   int
	next    int
	attempt int
}

// Orchestrate runs all cases of a monitor in child processes and returns the aggregate.
func Orchestrate(m *Monitor, o Options, bin string, scratch string) *Aggregate {
	n := m.NumCases(o.Tier)
	workers := m.Workers
	if workers == 0 {
		workers = 14
	}
	if v := os.Getenv("VERIF_WORKERS"); v != "" {
		if w, err := strconv.Atoi(v); err == nil && w > 0 {
			workers = w
		}
	}
	if workers > n {
		workers = n
	}
	if o.Only >= 0 {
		workers = 1
	}
	agg := &Aggregate{Counters: map[string]int64{}, Sets: map[string]map[string]bool{}, Inconclusive: map[string]int{}}
	var mu sync.Mutex
	results := map[int]*Result{}
	var wg sync.WaitGroup
	for s := 0; s < workers; s++ {
		wg.Add(1)
		go func(shard int) {
			defer wg.Done()
			startAt := 0
			for attempt := 0; attempt < 10000; attempt++ {
				out := filepath.Join(scratch, fmt.Sprintf("out.%d.%d", shard, attempt))
				errf := filepath.Join(scratch, fmt.Sprintf("err.%d.%d", shard, attempt))
				wdir := filepath.Join(scratch, fmt.Sprintf("w%d", shard))
				os.MkdirAll(wdir, 0755)
				tmpd := filepath.Join(wdir, "tmp")
				os.MkdirAll(tmpd, 0755)
				args := []string{"worker", m.ID, o.Tier, strconv.FormatUint(o.Seed, 10), strconv.Itoa(shard), strconv.Itoa(workers), strconv.Itoa(startAt), out, wdir}
				if o.Only >= 0 {
					args = append(args, strconv.Itoa(o.Only))
				}
				cmd := exec.Command(bin, args...)
				ef, _ := os.Create(errf)
				cmd.Stderr = ef
				cmd.Stdout = nil // /dev/null: kevo prints thousands of lines
				cmd.Env = append(os.Environ(), "TMPDIR="+tmpd, "GOTRACEBACK=all")
				raceLog := ""
				if strings.HasSuffix(bin, "-race") {
					raceLog = filepath.Join(scratch, fmt.Sprintf("race.%d.%d", shard, attempt))
					cmd.Env = append(cmd.Env, "GORACE=halt_on_error=0 log_path="+raceLog, "VERIF_RACELOG="+raceLog)
				}
				err := cmd.Run()
				ef.Close()
				// parse output
				lastBegin, finished, recycle := -1, false, -1
				pending := -1
				if f, e := os.Open(out); e == nil {
					sc := bufio.NewScanner(f)
					sc.Buffer(make([]byte, 1<<20), 256<<20)
					for sc.Scan() {
						line := sc.Text()
						switch {
						case strings.HasPrefix(line, "BEGIN "):
							lastBegin, _ = strconv.Atoi(line[6:])
							pending = lastBegin
						case strings.HasPrefix(line, "RESULT "):
							var r Result
							if e := json.Unmarshal([]byte(line[7:]), &r); e == nil {
								mu.Lock()
								results[r.Idx] = &r
								mu.Unlock()
								if r.Idx == pending {
									pending = -1
								}
							}
						case strings.HasPrefix(line, "RECYCLE "):
							recycle, _ = strconv.Atoi(line[8:])
						case line == "DONE":
							finished = true
						}
					}
					f.Close()
				}
				os.Remove(out)
				if finished {
					// (a -race binary exits with 66 when it reported races; they were attributed per case)
					os.Remove(errf)
					return
				}
				if recycle >= 0 && pending < 0 {
					startAt = recycle
					os.Remove(errf)
					continue
				}
				// the worker died: attribute to the pending case
				code := -1
				if ee, ok := err.(*exec.ExitError); ok {
					code = ee.ExitCode()
				}
				et := crashExcerpt(errf)
				if pending >= 0 {
					r := &Result{Idx: pending, Sig: fmt.Sprintf("dead-%d", pending)}
					if code == 97 {
						if m.HangClass != "" {
							r.Violate(m.HangClass, "watchdog fired; goroutine dump:\n"+et, map[string]string{"hang": "watchdog"})
						} else {
							r.Inconclusive = "watchdog: case exceeded its wall-clock budget"
						}
					} else {
						kind := "exit"
						switch {
						case strings.Contains(et, "DATA RACE"):
							kind = "data_race"
						case strings.Contains(et, "fatal error:"):
							kind = "fatal_error"
						case strings.Contains(et, "panic:"):
							kind = "panic"
						case strings.Contains(et, "checkptr"):
							kind = "checkptr"
						}
						r.Violate("process_death", fmt.Sprintf("worker died (exit %d, %v) while running case %d; stderr tail:\n%s", code, err, pending, et),
							map[string]string{"death": kind})
					}
					mu.Lock()
					results[pending] = r
					mu.Unlock()
					startAt = pending + 1
					continue
				}
				// died outside a case (start-up failure): harness error
				fmt.Fprintf(os.Stderr, "harness: worker %d failed outside a case (exit %d): %s\n", shard, code, tail(errf, 2000))
				mu.Lock()
				agg.Inconclusive["worker start-up failure"]++
				mu.Unlock()
				return
			}
		}(s)
	}
	wg.Wait()
	// aggregate in index order
	var idxs []int
	for k := range results {
		idxs = append(idxs, k)
	}
	sort.Ints(idxs)
	seen := map[string]bool{}
	for _, i := range idxs {
		r := results[i]
		agg.Results = append(agg.Results, r)
		agg.Evaluations++
		for k, v := range r.Counters {
			agg.Counters[k] += v
		}
		for k, vs := range r.Sets {
			if agg.Sets[k] == nil {
				agg.Sets[k] = map[string]bool{}
			}
			for _, v := range vs {
				agg.Sets[k][v] = true
			}
		}
		if r.Inconclusive != "" {
			agg.Inconclusive[r.Inconclusive]++
		}
		if r.Nontrivial && r.Sig != "" && !seen[r.Sig] {
			seen[r.Sig] = true
			agg.Distinct++
		}
		for _, v := range r.Violations {
			agg.Violations = append(agg.Violations, CaseViolation{Idx: r.Idx, Violation: v, Witness: r.Witness})
		}
		if r.Sample != nil && len(agg.Samples) < 4 {
			agg.Samples = append(agg.Samples, r.Sample)
		}
	}
	if o.Only < 0 && agg.Evaluations < n {
		agg.Inconclusive[fmt.Sprintf("cases without result: %d of %d", n-agg.Evaluations, n)]++
	}
	return agg
}

// ---------------------------------------------------------------------------
// known findings

type Finding struct {
	Kind     string // known | fixed
	Property string
	ID       string
	Class    string
	When     map[string]string
	Text     string
}

// LoadFindings parses KNOWN_FINDINGS.txt:
//
//	known: property=C03 id=torn-batch class=<class> when=k=v,k=v :: <what fails>
//	fixed: property=C01 <commit> <what failed>
func LoadFindings(path string) []Finding {
	var out []Finding
	b, err := os.ReadFile(path)
	if err != nil {
		return nil
	}
	for _, line := range strings.Split(string(b), "\n") {
		line = strings.TrimSpace(line)
		if !strings.HasPrefix(line, "known:") {
			continue
		}
		f := Finding{Kind: "known", When: map[string]string{}}
		head, text, _ := strings.Cut(line[6:], "::")
		f.Text = strings.TrimSpace(text)
		for _, tok := range strings.Fields(head) {
			k, v, ok := strings.Cut(tok, "=")
			if !ok {
				continue
			}
			switch k {
			case "property":
				f.Property = v
			case "id":
				f.ID = v
			case "class":
				f.Class = v
			case "when":
				for _, kv := range strings.Split(v, ",") {
					a, b, ok := strings.Cut(kv, "=")
					if ok {
						f.When[a] = b
					}
				}
			}
		}
		out = append(out, f)
	}
	return out
}

func (f *Finding) Matches(prop string, v *Violation) bool {
	if f.Property != prop || f.Class != v.Class {
		return false
	}
	for k, want := range f.When {
		if v.Features[k] != want {
			return false
		}
	}
	return true
}

// ---------------------------------------------------------------------------
// run = build + orchestrate + report

func env(base []string) []string {
	var out []string
	for _, e := range base {
		if strings.HasPrefix(e, "GOFLAGS=") || strings.HasPrefix(e, "GOPROXY=") || strings.HasPrefix(e, "GOSUMDB=") ||
			strings.HasPrefix(e, "GOTOOLCHAIN=") || strings.HasPrefix(e, "GONOSUMDB=") || strings.HasPrefix(e, "GONOSUMCHECK=") || strings.HasPrefix(e, "GOFLAGS=") {
			continue
		}
		out = append(out, e)
	}
	return append(out, "GOFLAGS=-mod=mod", "GOPROXY=off", "GOTOOLCHAIN=auto", "GONOSUMDB=*", "GONOSUMCHECK=1", "GONOSUMDB=github.com/anishathalye")
}

// Build compiles the worker binary from /repo's current working tree.
func Build(verifDir string, race bool) (string, error) {
	name := "kvmon"
	args := []string{"build", "-tags", "verif"}
	if race {
		name += "-race"
		args = append(args, "-race")
	}
	bin := filepath.Join(verifDir, "bin", name)
	args = append(args, "-o", bin, "./cmd/kvmon")
	for attempt := 0; attempt < 2; attempt++ {
		cmd := exec.Command("go", args...)
		cmd.Dir = filepath.Join(verifDir, "harness")
		cmd.Env = env(os.Environ())
		if attempt == 1 {
			cmd = exec.Command("go1.26.8", args...)
			cmd.Dir = filepath.Join(verifDir, "harness")
			cmd.Env = append(env(os.Environ()), "GOTOOLCHAIN=local")
		}
		var buf bytes.Buffer
		cmd.Stdout, cmd.Stderr = &buf, &buf
		if err := cmd.Run(); err != nil {
			if attempt == 0 && (strings.Contains(buf.String(), "toolchain") || strings.Contains(buf.String(), "go.mod requires go")) {
				continue
			}
			return "", fmt.Errorf("build failed: %v\n%s", err, buf.String())
		}
		return bin, nil
	}
	return "", fmt.Errorf("build failed")
}

func scratchRoot() string {
	base := os.Getenv("VERIF_SCRATCH")
	if base == "" {
		if st, err := os.Stat("/dev/shm"); err == nil && st.IsDir() {
			base = "/dev/shm"
		} else {
			base = os.TempDir()
		}
	}
	d, err := os.MkdirTemp(base, "verif-")
	if err != nil {
		d, _ = os.MkdirTemp("", "verif-")
	}
	return d
}

// RunCheck is the whole life of `check <prop> <tier>`; it returns the exit code.
func RunCheck(o Options) int {
	m := Get(o.Prop)
	if m == nil {
		fmt.Fprintf(os.Stderr, "unknown property %s (have %v)\n", o.Prop, IDs())
		return 3
	}
	t0 := time.Now()
	race := m.Race || (m.RaceThoroughOnly && o.Tier == "thorough")
	if os.Getenv("VERIF_FORCE_RACE") != "" {
		race = true // audit mode (never used by a registered command): any monitor under the race detector
	}
	bin := os.Getenv("VERIF_BIN") // set by ./check after building
	if race {
		bin = os.Getenv("VERIF_BIN_RACE")
	}
	if bin == "" {
		var err error
		bin, err = Build(o.VerifDir, race)
		if err != nil {
			fmt.Fprintln(os.Stderr, err)
			return 3
		}
	}
	scratch := scratchRoot()
	defer os.RemoveAll(scratch)
	if o.Only < 0 {
		// witnesses of earlier runs of this tier are stale once the check is re-run
		old, _ := filepath.Glob(filepath.Join(o.VerifDir, "replays", o.Prop, fmt.Sprintf("%s-seed%d-*.json", o.Tier, o.Seed)))
		for _, f := range old {
			os.Remove(f)
		}
	}
	agg := Orchestrate(m, o, bin, scratch)

	findings := LoadFindings(filepath.Join(o.VerifDir, "KNOWN_FINDINGS.txt"))
	knownHit := map[string]int{}
	var unattributed []CaseViolation
	for _, v := range agg.Violations {
		matched := false
		for i := range findings {
			if findings[i].Matches(o.Prop, &v.Violation) {
				knownHit[findings[i].ID]++
				matched = true
				break
			}
		}
		if !matched {
			unattributed = append(unattributed, v)
		}
	}
	for _, f := range findings {
		if f.Property == o.Prop && knownHit[f.ID] > 0 {
			fmt.Printf("KNOWN-FINDING: property=%s %s (id=%s, reproduced in %d case(s))\n", o.Prop, f.Text, f.ID, knownHit[f.ID])
		}
	}
	// replay files for unattributed violations
	exit := 0
	if len(unattributed) > 0 {
		exit = 1
		rdir := filepath.Join(o.VerifDir, "replays", o.Prop)
		os.MkdirAll(rdir, 0755)
		printed := 0
		byClass := map[string]int{}
		for _, v := range unattributed {
			byClass[v.Class]++
			if byClass[v.Class] > 3 || printed >= 10 {
				continue
			}
			rp := filepath.Join(rdir, fmt.Sprintf("%s-seed%d-case%d-%s.json", o.Tier, o.Seed, v.Idx, Sig(v.Class, v.Detail)[:8]))
			b, _ := json.MarshalIndent(map[string]interface{}{
				"property": o.Prop, "tier": o.Tier, "seed": o.Seed, "case": v.Idx,
				"class": v.Class, "features": v.Features, "detail": v.Detail, "witness": v.Witness,
				"replay_cmd": fmt.Sprintf("./check replay %s %s %d %d", o.Prop, o.Tier, o.Seed, v.Idx),
			}, "", " ")
			os.WriteFile(rp, b, 0644)
			fmt.Printf("VIOLATION property=%s replay=%s\n", o.Prop, rp)
			d := v.Detail
			if len(d) > 600 {
				d = d[:600] + "..."
			}
			fmt.Printf("  class=%s features=%v\n  %s\n", v.Class, v.Features, strings.ReplaceAll(d, "\n", "\n  "))
			printed++
		}
		fmt.Printf("violations by class: %v\n", byClass)
	}
	nInc := 0
	for reason, k := range agg.Inconclusive {
		fmt.Printf("INCONCLUSIVE property=%s n=%d reason=%s\n", o.Prop, k, reason)
		nInc += k
	}
	guard := ""
	if o.Only < 0 && m.Guard != nil {
		guard = m.Guard(agg)
	}
	if o.Only < 0 && guard == "" && agg.Distinct < 2 {
		guard = fmt.Sprintf("only %d distinct non-trivial cases", agg.Distinct)
	}

	// evidence
	cov := map[string]interface{}{
		"evaluations":               agg.Evaluations,
		"distinct_nontrivial":       agg.Distinct,
		"rule":                      m.Rule,
		"samples":                   agg.Samples,
		"inconclusive":              nInc,
		"known_findings_reproduced": knownHit,
	}
	cnt := map[string]int64{}
	for k, v := range agg.Counters {
		cnt[k] = v
	}
	cov["counters"] = cnt
	sets := map[string]int{}
	for k, v := range agg.Sets {
		sets[k] = len(v)
		if len(v) <= 80 {
			var l []string
			for x := range v {
				l = append(l, x)
			}
			sort.Strings(l)
			cov["set_"+k] = l
		}
	}
	cov["distinct_counts"] = sets
	if m.Extra != nil {
		m.Extra(agg, cov)
	}
	if len(agg.Samples) == 0 {
		cov["samples"] = []interface{}{"(no sample recorded)"}
	}
	ev := map[string]interface{}{
		"property_id": o.Prop, "tier": o.Tier, "seed": int64(o.Seed), "level": m.Level,
		"coverage": cov, "assumptions": m.Assumptions,
		"wall_s":     time.Since(t0).Seconds(),
		"violations": len(unattributed),
	}
	if o.Only < 0 {
		os.MkdirAll(filepath.Join(o.VerifDir, "evidence"), 0755)
		b, _ := json.MarshalIndent(ev, "", " ")
		os.WriteFile(filepath.Join(o.VerifDir, "evidence", o.Prop+".json"), b, 0644)
	}
	keys := make([]string, 0, len(cnt))
	for k := range cnt {
		keys = append(keys, k)
	}
	sort.Strings(keys)
	var sb strings.Builder
	for _, k := range keys {
		fmt.Fprintf(&sb, " %s=%d", k, cnt[k])
	}
	for k, v := range sets {
		fmt.Fprintf(&sb, " distinct_%s=%d", k, v)
	}
	fmt.Printf("SUMMARY property=%s tier=%s seed=%d cases=%d distinct_nontrivial=%d violations=%d known=%d inconclusive=%d wall=%.1fs%s\n",
		o.Prop, o.Tier, o.Seed, agg.Evaluations, agg.Distinct, len(unattributed), len(agg.Violations)-len(unattributed), nInc, time.Since(t0).Seconds(), sb.String())
	if exit == 0 && guard != "" {
		fmt.Printf("HARNESS-ERROR property=%s vacuity guard: %s\n", o.Prop, guard)
		return 3
	}
	return exit
}

// SubCommands are extra entry points of the binary (children spawned by monitors).
var SubCommands = map[string]func(args []string){}
