package kv

import (
	"fmt"
	"os"
	"path/filepath"
	"sort"
	"strings"

	"github.com/KevoDB/kevo/pkg/sstable"
)

// FileVer is the newest version of a key in the table files of a directory.
type FileVer struct {
	V     []byte // nil = deletion marker
	Level int
	File  string
	Older int // number of older versions in other files
}

type sstFile struct {
	name  string
	level int
	seq   uint64
	ts    int64
}

// SSTView reads every table file of the directory through the public reader and
// returns the newest-wins merged view. Recency follows the documented naming
// level_sequence_timestamp.sst: a lower level is newer, inside a level the later
// creation time is newer. It also checks that every file is strictly ascending.
func SSTView(dir string) (map[string]*FileVer, []string, error) {
	ents, err := os.ReadDir(dir)
	if err != nil {
		if os.IsNotExist(err) {
			return map[string]*FileVer{}, nil, nil
		}
		return nil, nil, err
	}
	var files []sstFile
	for _, e := range ents {
		if e.IsDir() || !strings.HasSuffix(e.Name(), ".sst") || strings.HasPrefix(e.Name(), ".") {
			continue
		}
		var f sstFile
		f.name = e.Name()
		if n, _ := fmt.Sscanf(e.Name(), "%d_%06d_%020d.sst", &f.level, &f.seq, &f.ts); n != 3 {
			continue
		}
		files = append(files, f)
	}
	// newest first
	sort.Slice(files, func(i, j int) bool {
		if files[i].level != files[j].level {
			return files[i].level < files[j].level
		}
		return files[i].ts > files[j].ts
	})
	view := map[string]*FileVer{}
	var names []string
	for _, f := range files {
		names = append(names, f.name)
		rd, err := sstable.OpenReader(filepath.Join(dir, f.name))
		if err != nil {
			if os.IsNotExist(err) {
				continue // removed by a concurrent cleanup
			}
			return nil, names, fmt.Errorf("table %s cannot be opened: %v", f.name, err)
		}
		it := rd.NewIterator()
		var prev []byte
		first := true
		for it.SeekToFirst(); it.Valid(); it.Next() {
			k := it.Key()
			if !first && string(k) <= string(prev) {
				rd.Close()
				return nil, names, fmt.Errorf("table %s is not strictly ascending: %s after %s", f.name, Q(k), Q(prev))
			}
			first = false
			prev = append(prev[:0], k...)
			if cur, ok := view[string(k)]; ok {
				cur.Older++
				continue
			}
			var v []byte
			if !it.IsTombstone() {
				v = append([]byte{}, it.Value()...)
			}
			view[string(k)] = &FileVer{V: v, Level: f.level, File: f.name}
		}
		rd.Close()
	}
	return view, names, nil
}

// CompareViews checks a compaction: every key keeps its newest value; a deletion
// marker may vanish only if no older version of the key remains in any file.
func CompareViews(before, after map[string]*FileVer) string {
	for k, b := range before {
		a, ok := after[k]
		switch {
		case !ok && b.V != nil:
			return fmt.Sprintf("key %s (value %s in %s) is gone from the table files", Q([]byte(k)), Q(b.V), b.File)
		case !ok:
			// marker vanished and nothing older remains: fine
		case b.V == nil && a.V != nil:
			return fmt.Sprintf("deleted key %s (marker in %s) reads %s from %s after the compaction: the delete marker was dropped while an older version remains", Q([]byte(k)), b.File, Q(a.V), a.File)
		case b.V != nil && a.V == nil:
			return fmt.Sprintf("key %s = %s (in %s) became a deletion marker (in %s)", Q([]byte(k)), Q(b.V), b.File, a.File)
		case b.V != nil && string(a.V) != string(b.V):
			return fmt.Sprintf("key %s changed from %s (in %s) to %s (in %s)", Q([]byte(k)), Q(b.V), b.File, Q(a.V), a.File)
		}
	}
	for k, a := range after {
		if _, ok := before[k]; !ok {
			return fmt.Sprintf("key %s appeared in the table files (value %s in %s) although no file held it before", Q([]byte(k)), Q(a.V), a.File)
		}
	}
	return ""
}
