package kv

import (
	"bytes"
	"fmt"
	"os"
	"path/filepath"
	"sort"
	"strings"

	"github.com/KevoDB/kevo/pkg/engine"
	"github.com/KevoDB/kevo/pkg/wal"

	"verif/internal/core"
)

// Op is one step of a single-client program.
type Op struct {
	Kind   string // put del get tx batch flush compact crange reopen retire check scan
	Key    []byte
	Val    []byte
	End    []byte
	Sub    []Op // tx / batch body (put, del, get)
	Commit bool
}

func (o Op) String() string {
	switch o.Kind {
	case "put":
		return fmt.Sprintf("put(%s,%s)", Q(o.Key), Q(o.Val))
	case "del", "get":
		return fmt.Sprintf("%s(%s)", o.Kind, Q(o.Key))
	case "tx", "batch":
		var b strings.Builder
		b.WriteString(o.Kind + "{")
		for i, s := range o.Sub {
			if i > 0 {
				b.WriteString("; ")
			}
			if i >= 6 {
				fmt.Fprintf(&b, "...%d more", len(o.Sub)-i)
				break
			}
			b.WriteString(s.String())
		}
		if o.Kind == "tx" {
			if o.Commit {
				b.WriteString("} commit")
			} else {
				b.WriteString("} rollback")
			}
		} else {
			b.WriteString("}")
		}
		return b.String()
	case "crange":
		return fmt.Sprintf("compactRange(%s,%s)", Q(o.Key), Q(o.End))
	}
	return o.Kind
}

// KeySpace is the set of keys a program draws from.
type KeySpace struct {
	Keys [][]byte
	// Locality: picks come from a window of the sorted key space that moves every few
	// picks, so that flushed files cover different, partly disjoint key ranges
	Locality bool
	sorted   [][]byte
	winStart int
	winLen   int
	winLeft  int
}

// GenKeySpace mixes key classes: ASCII, binary with 0x00/0xFF, long shared
// prefixes, one-byte keys and (rarely) keys of the documented maximum length.
func GenKeySpace(r *core.Rand, n int) *KeySpace {
	ks := &KeySpace{}
	seen := map[string]bool{}
	prefix := bytes.Repeat([]byte("p"), r.Range(20, 300))
	for len(ks.Keys) < n {
		var k []byte
		switch r.Pick(8, 3, 3, 2, 1) {
		case 0:
			k = []byte(fmt.Sprintf("k%03d", r.Intn(4*n)))
		case 1:
			k = []byte{[]byte{0x00, 0xff, 0x7f, 0x01}[r.Intn(4)], byte(r.Intn(8)), []byte{0x00, 0xff}[r.Intn(2)]}
			k = k[:r.Range(1, 3)]
		case 2:
			k = append(append([]byte{}, prefix...), []byte(fmt.Sprintf("%02d", r.Intn(3*n)))...)
		case 3:
			k = []byte{byte(r.Intn(256))}
		case 4:
			k = append(bytes.Repeat([]byte{byte('a' + r.Intn(3))}, 4095), byte(r.Intn(4)))
		}
		if !seen[string(k)] {
			seen[string(k)] = true
			ks.Keys = append(ks.Keys, k)
		}
	}
	return ks
}

func (ks *KeySpace) Pick(r *core.Rand) []byte {
	if ks.Locality {
		if ks.sorted == nil {
			ks.sorted = append([][]byte{}, ks.Keys...)
			sort.Slice(ks.sorted, func(i, j int) bool { return bytes.Compare(ks.sorted[i], ks.sorted[j]) < 0 })
		}
		if ks.winLeft <= 0 {
			ks.winLen = r.Range(1, (len(ks.sorted)+2)/3)
			ks.winStart = r.Intn(len(ks.sorted) - ks.winLen + 1)
			ks.winLeft = r.Range(3, 25)
		}
		ks.winLeft--
		if r.Chance(90) {
			return ks.sorted[ks.winStart+r.Intn(ks.winLen)]
		}
	}
	// skew: a quarter of the keys gets most of the traffic, so keys are overwritten often
	if r.Chance(60) {
		return ks.Keys[r.Intn((len(ks.Keys)+3)/4)]
	}
	return ks.Keys[r.Intn(len(ks.Keys))]
}

// GenVal builds a value carrying the unique id tag, padded to a length class.
func GenVal(r *core.Rand, tag string, big bool) []byte {
	var n int
	switch r.Pick(3, 20, 30, 8, 2, 1) {
	case 0:
		return []byte{} // empty value (not unique; legal)
	case 1:
		n = 0
	case 2:
		n = r.Range(20, 200)
	case 3:
		n = 4096
	case 4:
		n = 33 * 1024 // larger than one log fragment
		if !big {
			n = 3000
		}
	case 5:
		n = 200 * 1024
		if !big {
			n = 5000
		}
	}
	v := []byte(tag)
	for len(v) < n {
		v = append(v, byte('a'+len(v)%26))
	}
	return v
}

// GenOpts steers the program generator.
type GenOpts struct {
	NOps         int
	NKeys        int
	BigValues    bool
	Maintenance  int // weight of flush/compact/reopen/retire ops (0..)
	CompactRange bool
	Retire       bool
	Reopen       bool
	Tx           bool
	Batch        bool
	Scans        bool
	OnlineRetire bool // online log retention (WAL.ManageRetention on the running engine) after flushing everything
	BigTxPct     int  // chance (percent) that a transaction is larger than the 64KB log buffer (0 = 8)
	TxWeight     int  // weight of transactions in the op mix (0 = 8)
}

// GenProgram draws a program.
func GenProgram(r *core.Rand, ks *KeySpace, tagPrefix string, o GenOpts) []Op {
	var prog []Op
	n := 0
	val := func() []byte {
		n++
		return GenVal(r, fmt.Sprintf("%s/%d|", tagPrefix, n), o.BigValues)
	}
	// a put whose log entry is exactly one record payload (32768 bytes) long, or one byte to either side
	put := func() Op {
		k := ks.Pick(r)
		v := val()
		if o.BigValues && r.Chance(5) && len(v) >= 6 { // (an empty value has no unique tag: padding it would create equal values)
			// boundary sizes of the log format: a record payload of exactly the maximum size (+-1), or a
			// fragmented entry whose value-length field plus value is an exact multiple of the record size (+-1),
			// so that its last fragment is full
			l := 32768 - 17 - len(k) + r.Range(-1, 1)
			if r.Chance(40) {
				l = 32768*r.Range(1, 2) - 4 + r.Range(-1, 1)
			}
			for len(v) < l {
				v = append(v, byte('B'+len(v)%23))
			}
			if len(v) > l && l > 16 {
				v = v[:l]
			}
		}
		return Op{Kind: "put", Key: k, Val: v}
	}
	sub := func(maxOps int, withGet bool) []Op {
		var s []Op
		m := r.Range(1, maxOps)
		for i := 0; i < m; i++ {
			switch r.Pick(6, 3, 2) {
			case 0:
				s = append(s, put())
			case 1:
				s = append(s, Op{Kind: "del", Key: ks.Pick(r)})
			case 2:
				if withGet {
					s = append(s, Op{Kind: "get", Key: ks.Pick(r)})
				} else {
					s = append(s, put())
				}
			}
		}
		return s
	}
	wTx, wBatch, wScan := 0, 0, 0
	if o.Tx {
		wTx = 8
		if o.TxWeight > 0 {
			wTx = o.TxWeight
		}
	}
	bigTx := 8
	if o.BigTxPct > 0 {
		bigTx = o.BigTxPct
	}
	if o.Batch {
		wBatch = 4
	}
	if o.Scans {
		wScan = 6
	}
	for len(prog) < o.NOps {
		switch r.Pick(40, 14, 16, wTx, wBatch, o.Maintenance, wScan) {
		case 0:
			prog = append(prog, put())
		case 1:
			prog = append(prog, Op{Kind: "del", Key: ks.Pick(r)})
		case 2:
			prog = append(prog, Op{Kind: "get", Key: ks.Pick(r)})
		case 3:
			max := 6
			if r.Chance(10) {
				max = 40
			}
			body := sub(max, true)
			if r.Chance(bigTx) {
				// a commit larger than the 64KB log buffer: a few large values or many small ones
				if r.Bool() {
					for i, m := 0, r.Range(2, 4); i < m; i++ {
						n++
						v := []byte(fmt.Sprintf("%s/%d|", tagPrefix, n))
						for l := r.Range(20000, 42000); len(v) < l; {
							v = append(v, byte('A'+len(v)%26))
						}
						body = append(body, Op{Kind: "put", Key: ks.Pick(r), Val: v})
					}
				} else {
					for i, m := 0, r.Range(150, 700); i < m; i++ {
						n++
						v := []byte(fmt.Sprintf("%s/%d|", tagPrefix, n))
						for l := r.Range(80, 500); len(v) < l; {
							v = append(v, byte('A'+len(v)%26))
						}
						// distinct keys: the transaction buffer keeps one operation per key
						k := append(append([]byte{}, ks.Pick(r)...), []byte(fmt.Sprintf("~%03d", i))...)
						body = append(body, Op{Kind: "put", Key: k, Val: v})
					}
				}
			}
			prog = append(prog, Op{Kind: "tx", Sub: body, Commit: r.Chance(75)})
		case 4:
			// batch with distinct keys (an explicit batch has no defined order among equal keys)
			s := sub(6, false)
			seen := map[string]bool{}
			var d []Op
			for _, x := range s {
				if !seen[string(x.Key)] {
					seen[string(x.Key)] = true
					d = append(d, x)
				}
			}
			prog = append(prog, Op{Kind: "batch", Sub: d})
		case 5:
			wr, wre, wcr, wor := 0, 0, 0, 0
			if o.OnlineRetire {
				wor = 3
			}
			if o.Reopen {
				wre = 4
			}
			if o.Retire {
				wr = 3
			}
			if o.CompactRange {
				wcr = 2
			}
			switch r.Pick(8, 5, wre, wr, wcr, wor) {
			case 0:
				prog = append(prog, Op{Kind: "flush"})
			case 1:
				prog = append(prog, Op{Kind: "compact"})
			case 2:
				prog = append(prog, Op{Kind: "reopen"})
			case 3:
				prog = append(prog, Op{Kind: "retire"})
			case 4:
				a, b := ks.Pick(r), ks.Pick(r)
				if bytes.Compare(a, b) > 0 {
					a, b = b, a
				}
				prog = append(prog, Op{Kind: "crange", Key: a, End: b})
			case 5:
				prog = append(prog, Op{Kind: "oretire", Val: []byte{byte(r.Intn(3))}})
			}
		case 6:
			prog = append(prog, Op{Kind: "scan"})
		}
	}
	return prog
}

// ---------------------------------------------------------------------------
// executor

// Exec runs programs against a real engine and the model.
type Exec struct {
	Dir   string
	Cfg   Cfg
	Eng   *engine.EngineFacade
	Model *Model
	Res   *core.Result
	R     *core.Rand

	CheckEvery int                     // full read-back every n ops
	CheckSeq   bool                    // monitor storage_last_sequence / next sequence monotonicity (C08)
	ScanCheck  bool                    // full scans are compared with the model at every full check
	ScanFn     func(x *Exec, step int) // optional richer scan checker (C05)
	BeforeOp   func(x *Exec, op Op)    // optional monitor hooks around every op (C12)
	AfterOp    func(x *Exec, op Op)

	// bookkeeping for violation features
	lastKind       map[string]string // key -> kind of its latest write
	lastStep       map[string]int
	maint          []string // maintenance ops so far (with step)
	maintSteps     []int
	Step           int
	Trace          []string
	Failed         bool
	lastSeq        uint64
	lastNext       uint64
	UsedCRange     bool
	RetentionRaced bool // an online retention call overlapped a log rotation (finding D33)
	WriteErrs      int
	Writes         int
}

func NewExec(dir string, cfg Cfg, res *core.Result, r *core.Rand) (*Exec, error) {
	x := &Exec{Dir: dir, Cfg: cfg, Res: res, R: r, Model: NewModel(), CheckEvery: 10,
		lastKind: map[string]string{}, lastStep: map[string]int{}}
	e, err := Open(dir, cfg)
	if err != nil {
		return nil, err
	}
	x.Eng = e
	return x, nil
}

func (x *Exec) Close() {
	if x.Eng != nil {
		x.Eng.Close()
		x.Eng = nil
	}
}

func (x *Exec) features(key []byte) map[string]string {
	f := map[string]string{}
	k := string(key)
	f["last_write"] = x.lastKind[k]
	if f["last_write"] == "" {
		f["last_write"] = "none"
	}
	var since []string
	seen := map[string]bool{}
	for i, m := range x.maint {
		if x.maintSteps[i] >= x.lastStep[k] && !seen[m] {
			seen[m] = true
			since = append(since, m)
		}
	}
	f["maint_since_write"] = strings.Join(since, "+")
	if f["maint_since_write"] == "" {
		f["maint_since_write"] = "none"
	}
	f["uses_compact_range"] = fmt.Sprint(x.UsedCRange)
	f["retention_raced_rotation"] = fmt.Sprint(x.RetentionRaced)
	if v, ok := x.Model.M[k]; ok {
		switch {
		case len(v) == 0:
			f["value_class"] = "empty"
		case len(v) > 32*1024:
			f["value_class"] = "multi_fragment"
		default:
			f["value_class"] = "normal"
		}
	} else {
		f["value_class"] = "deleted_or_absent"
	}
	return f
}

func (x *Exec) traceTail() string {
	t := x.Trace
	if len(t) > 400 {
		t = t[len(t)-400:]
	}
	return strings.Join(t, "\n")
}

// Fail records a violation and stops the program.
func (x *Exec) Fail(class, msg string, key []byte) { x.fail(class, msg, key) }

func (x *Exec) fail(class, msg string, key []byte) {
	x.Failed = true
	feat := x.features(key)
	x.Res.Violate(class, fmt.Sprintf("%s\nconfig: %s\nstep %d; program so far (last 400 ops):\n%s", msg, x.Cfg, x.Step, x.traceTail()), feat)
}

// CheckKey compares one point read with the model.
func (x *Exec) CheckKey(k []byte) bool {
	got, err := x.Eng.Get(k)
	x.Res.Count("reads", 1)
	want, live := x.Model.Get(k)
	switch {
	case err != nil && !IsNotFound(err):
		x.fail("read_error", fmt.Sprintf("get(%s) returned error %v", Q(k), err), k)
		return false
	case err != nil && live:
		x.fail("stale_read", fmt.Sprintf("get(%s) = not found, latest write is put %s", Q(k), Q(want)), k)
		return false
	case err == nil && !live:
		what := "never written"
		if x.Model.Ever[string(k)] {
			what = "deleted"
		}
		x.fail("stale_read", fmt.Sprintf("get(%s) = %s, but the key is %s", Q(k), Q(got), what), k)
		return false
	case err == nil && !bytes.Equal(got, want):
		x.fail("stale_read", fmt.Sprintf("get(%s) = %s, latest write is put %s", Q(k), Q(got), Q(want)), k)
		return false
	}
	return true
}

// CheckAll reads every key ever used (and a few never-written ones).
func (x *Exec) CheckAll() bool {
	for _, k := range x.Model.EverSorted() {
		if !x.CheckKey([]byte(k)) {
			return false
		}
	}
	for _, k := range [][]byte{[]byte("never-written"), {0x00}, {0xff, 0xff, 0xff, 0xff}} {
		if !x.Model.Ever[string(k)] {
			if !x.CheckKey(k) {
				return false
			}
		}
	}
	if x.ScanCheck {
		it, err := x.Eng.GetIterator()
		if err != nil {
			x.fail("scan_error", fmt.Sprintf("GetIterator: %v", err), nil)
			return false
		}
		it.SeekToFirst()
		got := Drain(it, 1<<20)
		x.Res.Count("scans", 1)
		if msg := CheckScan(got, x.Model, nil, nil, nil); msg != "" {
			x.fail("scan_mismatch", "full scan: "+msg, nil)
			return false
		}
	}
	if x.ScanFn != nil {
		x.ScanFn(x, x.Step)
		if x.Failed {
			return false
		}
	}
	return true
}

func (x *Exec) noteMaint(kind string) {
	x.maint = append(x.maint, kind)
	x.maintSteps = append(x.maintSteps, x.Step)
	x.Res.Count("maint_"+kind, 1)
}

func (x *Exec) noteWrite(k []byte, kind string) {
	x.lastKind[string(k)] = kind
	x.lastStep[string(k)] = x.Step
}

func scribble(b []byte) {
	for i := range b {
		b[i] = 0xEE
	}
}

func (x *Exec) seqCheck(where string) {
	if !x.CheckSeq || x.Eng == nil {
		return
	}
	st := x.Eng.GetStats()
	if v, ok := st["storage_last_sequence"].(uint64); ok {
		if v < x.lastSeq {
			x.fail("sequence_regression", fmt.Sprintf("storage_last_sequence went from %d to %d (%s)", x.lastSeq, v, where), nil)
		}
		x.lastSeq = v
	}
	if w := x.Eng.GetWAL(); w != nil {
		n := w.GetNextSequence()
		if n < x.lastNext {
			x.fail("sequence_regression", fmt.Sprintf("next log sequence went from %d to %d (%s)", x.lastNext, n, where), nil)
		}
		x.lastNext = n
		x.Res.Count("seq_samples", 1)
	}
}

func (x *Exec) reopen() bool {
	x.Eng.Close()
	e, err := Open(x.Dir, x.Cfg)
	if err != nil {
		x.Eng = nil
		x.fail("open_error", fmt.Sprintf("reopening a cleanly closed database failed: %v", err), nil)
		return false
	}
	x.Eng = e
	return true
}

// RetireOffline removes the log files whose contents are in table files: flush
// (twice: the second call flushes the active table), close, delete *.wal, reopen.
func (x *Exec) retire() bool {
	for i := 0; i < 2; i++ {
		if err := x.Eng.FlushImMemTables(); err != nil {
			x.fail("maintenance_error", fmt.Sprintf("flush failed: %v", err), nil)
			return false
		}
	}
	// everything must now be in tables: the memtables hold nothing unflushed
	x.Eng.Close()
	files, _ := filepath.Glob(filepath.Join(x.Dir, "wal", "*.wal"))
	for _, f := range files {
		os.Remove(f)
	}
	e, err := Open(x.Dir, x.Cfg)
	if err != nil {
		x.Eng = nil
		x.fail("open_error", fmt.Sprintf("reopening after log retirement failed: %v", err), nil)
		return false
	}
	x.Eng = e
	return true
}

// Run executes the program; it stops at the first violation.
func (x *Exec) Run(prog []Op) {
	for _, op := range prog {
		if x.Failed || x.Eng == nil {
			return
		}
		x.Step++
		x.Trace = append(x.Trace, fmt.Sprintf("%4d %s", x.Step, op.String()))
		x.Res.Count("ops", 1)
		var touched [][]byte
		if x.BeforeOp != nil {
			x.BeforeOp(x, op)
			if x.Failed {
				return
			}
		}
		switch op.Kind {
		case "put":
			kb, vb := append([]byte{}, op.Key...), append([]byte{}, op.Val...)
			if len(vb) == 0 && x.Step%2 == 0 {
				vb = nil // what a remote client's empty value arrives as
			}
			err := x.Eng.Put(kb, vb)
			scribble(kb)
			scribble(vb)
			x.Writes++
			if err != nil {
				x.WriteErrs++
				x.Res.Count("write_errors", 1)
				x.Trace[len(x.Trace)-1] += fmt.Sprintf("  -> error %v", err)
			} else {
				x.Model.Put(op.Key, op.Val)
				x.noteWrite(op.Key, "put")
			}
			touched = append(touched, op.Key)
		case "del":
			kb := append([]byte{}, op.Key...)
			err := x.Eng.Delete(kb)
			scribble(kb)
			x.Writes++
			if err != nil {
				x.WriteErrs++
				x.Res.Count("write_errors", 1)
				x.Trace[len(x.Trace)-1] += fmt.Sprintf("  -> error %v", err)
			} else {
				x.Model.Del(op.Key)
				x.noteWrite(op.Key, "delete")
			}
			touched = append(touched, op.Key)
		case "get":
			touched = append(touched, op.Key)
		case "batch":
			var ents []*wal.Entry
			for _, s := range op.Sub {
				if s.Kind == "put" {
					ents = append(ents, &wal.Entry{Type: wal.OpTypePut, Key: append([]byte{}, s.Key...), Value: append([]byte{}, s.Val...)})
				} else {
					ents = append(ents, &wal.Entry{Type: wal.OpTypeDelete, Key: append([]byte{}, s.Key...)})
				}
			}
			err := x.Eng.ApplyBatch(ents)
			for _, e := range ents {
				scribble(e.Key)
				scribble(e.Value)
			}
			x.Writes++
			if err != nil {
				x.WriteErrs++
				x.Res.Count("write_errors", 1)
				x.Trace[len(x.Trace)-1] += fmt.Sprintf("  -> error %v", err)
			} else {
				for _, s := range op.Sub {
					if s.Kind == "put" {
						x.Model.Put(s.Key, s.Val)
					} else {
						x.Model.Del(s.Key)
					}
					x.noteWrite(s.Key, "batch")
				}
			}
			for _, s := range op.Sub {
				touched = append(touched, s.Key)
			}
		case "tx":
			tx, err := x.Eng.BeginTransaction(false)
			if err != nil {
				x.fail("tx_error", fmt.Sprintf("BeginTransaction: %v", err), nil)
				return
			}
			overlay := x.Model.Clone()
			for _, s := range op.Sub {
				switch s.Kind {
				case "put":
					kb, vb := append([]byte{}, s.Key...), append([]byte{}, s.Val...)
					if len(vb) == 0 && x.Step%2 == 0 {
						vb = nil
					}
					if err := tx.Put(kb, vb); err != nil {
						x.fail("tx_error", fmt.Sprintf("tx.Put: %v", err), s.Key)
					}
					scribble(kb)
					scribble(vb)
					overlay.Put(s.Key, s.Val)
				case "del":
					kb := append([]byte{}, s.Key...)
					if err := tx.Delete(kb); err != nil {
						x.fail("tx_error", fmt.Sprintf("tx.Delete: %v", err), s.Key)
					}
					scribble(kb)
					overlay.Del(s.Key)
				case "get":
					got, err := tx.Get(s.Key)
					want, live := overlay.Get(s.Key)
					x.Res.Count("tx_reads", 1)
					if (err != nil && !IsNotFound(err)) || (err != nil) == live || (live && !bytes.Equal(got, want)) {
						x.fail("tx_read_mismatch", fmt.Sprintf("inside transaction get(%s) = %s err=%v, expected %s live=%v", Q(s.Key), Q(got), err, Q(want), live), s.Key)
					}
				}
				touched = append(touched, s.Key)
			}
			x.Writes++
			if op.Commit {
				if err := tx.Commit(); err != nil {
					x.WriteErrs++
					x.Res.Count("write_errors", 1)
					x.Trace[len(x.Trace)-1] += fmt.Sprintf("  -> commit error %v", err)
				} else {
					x.Model = overlay
					for _, s := range op.Sub {
						if s.Kind != "get" {
							x.noteWrite(s.Key, "tx")
						}
					}
					x.Res.Count("tx_committed", 1)
				}
			} else {
				if err := tx.Rollback(); err != nil {
					x.fail("tx_error", fmt.Sprintf("Rollback: %v", err), nil)
				}
				x.Res.Count("tx_rolled_back", 1)
			}
		case "flush":
			if err := x.Eng.FlushImMemTables(); err != nil {
				x.fail("maintenance_error", fmt.Sprintf("flush failed: %v", err), nil)
				return
			}
			x.noteMaint("flush")
		case "compact":
			if err := x.Eng.TriggerCompaction(); err != nil {
				x.fail("maintenance_error", fmt.Sprintf("TriggerCompaction failed: %v", err), nil)
				return
			}
			x.noteMaint("compact")
		case "crange":
			x.UsedCRange = true
			if err := x.Eng.CompactRange(op.Key, op.End); err != nil {
				x.fail("maintenance_error", fmt.Sprintf("CompactRange failed: %v", err), nil)
				return
			}
			x.noteMaint("crange")
		case "reopen":
			x.seqCheck("before reopen")
			if !x.reopen() {
				return
			}
			x.noteMaint("reopen")
		case "retire":
			x.seqCheck("before retire")
			if !x.retire() {
				return
			}
			x.noteMaint("retire")
			// the sequence counter is not persisted outside the log (known limitation D36):
			// monotonicity across a full retirement is judged by C08's dedicated scenario only
			x.lastSeq, x.lastNext = 0, 0
		case "oretire":
			// online retention as the primary does it, after everything was flushed: every log file but
			// the current one may go
			for i := 0; i < 2; i++ {
				if err := x.Eng.FlushImMemTables(); err != nil {
					x.fail("maintenance_error", fmt.Sprintf("flush failed: %v", err), nil)
					return
				}
			}
			w := x.Eng.GetWAL()
			rc := wal.WALRetentionConfig{}
			switch op.Val[0] {
			case 0:
				rc.MaxFileCount = 1
			case 1:
				rc.MinSequenceKeep = w.GetNextSequence()
			case 2:
				rc.MaxFileCount = 2
			}
			n, err := w.ManageRetention(rc)
			x.Trace[len(x.Trace)-1] += fmt.Sprintf("  -> %d files deleted, err %v", n, err)
			if x.Eng.GetWAL() != w {
				x.RetentionRaced = true // a background rotation replaced the log object during the call
			}
			x.noteMaint("oretire")
			x.Res.Count("log_files_retired_online", int64(n))
		case "scan":
			if x.ScanFn != nil {
				x.ScanFn(x, x.Step)
			}
		}
		if x.AfterOp != nil && !x.Failed && x.Eng != nil {
			x.AfterOp(x, op)
		}
		if x.Failed {
			return
		}
		x.seqCheck("after " + op.Kind)
		for _, k := range touched {
			if !x.CheckKey(k) {
				return
			}
		}
		full := x.Step%x.CheckEvery == 0
		switch op.Kind {
		case "flush", "compact", "crange", "reopen", "retire", "oretire":
			full = true
		}
		if full {
			x.Res.Count("full_checks", 1)
			if !x.CheckAll() {
				return
			}
		}
	}
	if !x.Failed && x.Eng != nil {
		x.CheckAll()
	}
}
