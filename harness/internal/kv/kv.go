// Package kv drives the embedded kevo engine with generated programs and
// compares everything it reads with a sequential map model.
package kv

import (
	"bytes"
	"fmt"
	"os"
	"path/filepath"
	"sort"
	"strings"

	"github.com/KevoDB/kevo/pkg/common/iterator"
	"github.com/KevoDB/kevo/pkg/common/log"
	"github.com/KevoDB/kevo/pkg/config"
	"github.com/KevoDB/kevo/pkg/engine"
	"github.com/KevoDB/kevo/pkg/wal"

	"verif/internal/core"
)

func init() {
	wal.DisableRecoveryLogs = true
	log.SetLevel(log.LevelError)
}

// Cfg is the part of the engine configuration the monitors vary.
type Cfg struct {
	MemTableSize int64 `json:"memtable_size"`
	MaxMemTables int   `json:"max_memtables"`
	SyncMode     int   `json:"sync_mode"` // 0 none, 1 batch, 2 immediate
	SyncBytes    int64 `json:"sync_bytes,omitempty"`
	CompactSecs  int64 `json:"compaction_interval"`
}

func (c Cfg) String() string {
	return fmt.Sprintf("mt=%d max=%d sync=%d ci=%d", c.MemTableSize, c.MaxMemTables, c.SyncMode, c.CompactSecs)
}

var memSizes = []int64{1, 300, 1024, 16 * 1024, 256 * 1024, 32 << 20}

// GenCfg draws a configuration that moves data between layers at different moments.
func GenCfg(r *core.Rand) Cfg {
	c := Cfg{
		MemTableSize: memSizes[r.Pick(2, 3, 4, 3, 1, 1)],
		MaxMemTables: []int{1, 2, 4}[r.Intn(3)],
		SyncMode:     r.Intn(3),
		CompactSecs:  []int64{1, 1, 3600}[r.Intn(3)],
	}
	if c.SyncMode == 1 {
		c.SyncBytes = []int64{1, 512, 1 << 20}[r.Intn(3)]
	}
	return c
}

// WriteManifest stores the configuration the documented way, before the first open.
func WriteManifest(dir string, c Cfg) error {
	cfg := config.NewDefaultConfig(dir)
	cfg.MemTableSize = c.MemTableSize
	cfg.MaxMemTables = c.MaxMemTables
	cfg.WALSyncMode = config.SyncMode(c.SyncMode)
	if c.SyncBytes > 0 {
		cfg.WALSyncBytes = c.SyncBytes
	}
	if c.CompactSecs > 0 {
		cfg.CompactionInterval = c.CompactSecs
	}
	return cfg.SaveManifest(dir)
}

// Open opens (or creates, with configuration c) the database in dir.
func Open(dir string, c Cfg) (*engine.EngineFacade, error) {
	if _, err := os.Stat(filepath.Join(dir, config.DefaultManifestFileName)); err != nil {
		if err := WriteManifest(dir, c); err != nil {
			return nil, err
		}
	}
	return engine.NewEngineFacade(dir)
}

// IsEngineBusy reports the engine's own give-up error: a write (or commit) that found the log in
// rotation for longer than storage.RetryOnWALRotating's three retries. The statements allow a write to
// fail (C06: it must then have had no effect); they do not promise that it succeeds.
func IsEngineBusy(err error) bool {
	return err != nil && strings.Contains(err.Error(), "WAL is rotating")
}

func IsNotFound(err error) bool {
	return err != nil && strings.Contains(err.Error(), "key not found")
}

// ---------------------------------------------------------------------------
// model

// Model is the sequential specification: a map from key to latest value.
type Model struct {
	M map[string][]byte // present = live
	// Ever is every key ever written or deleted
	Ever map[string]bool
}

func NewModel() *Model { return &Model{M: map[string][]byte{}, Ever: map[string]bool{}} }

func (m *Model) Put(k, v []byte) {
	m.M[string(k)] = append([]byte{}, v...)
	m.Ever[string(k)] = true
}
func (m *Model) Del(k []byte) {
	delete(m.M, string(k))
	m.Ever[string(k)] = true
}
func (m *Model) Get(k []byte) ([]byte, bool) {
	v, ok := m.M[string(k)]
	return v, ok
}
func (m *Model) Clone() *Model {
	n := NewModel()
	for k, v := range m.M {
		n.M[k] = v
	}
	for k := range m.Ever {
		n.Ever[k] = true
	}
	return n
}

// Sorted returns the live keys in ascending byte order.
func (m *Model) Sorted() []string {
	ks := make([]string, 0, len(m.M))
	for k := range m.M {
		ks = append(ks, k)
	}
	sort.Strings(ks)
	return ks
}

// EverSorted returns all keys ever touched.
func (m *Model) EverSorted() []string {
	ks := make([]string, 0, len(m.Ever))
	for k := range m.Ever {
		ks = append(ks, k)
	}
	sort.Strings(ks)
	return ks
}

func (m *Model) Equal(o *Model) bool {
	if len(m.M) != len(o.M) {
		return false
	}
	for k, v := range m.M {
		w, ok := o.M[k]
		if !ok || !bytes.Equal(v, w) {
			return false
		}
	}
	return true
}

// ---------------------------------------------------------------------------
// display helpers

// Q renders a byte string compactly for witnesses.
func Q(b []byte) string {
	if b == nil {
		return "<nil>"
	}
	if len(b) > 40 {
		return fmt.Sprintf("%q...(%d bytes, h=%08x)", b[:24], len(b), uint32(core.HashStr(string(b))))
	}
	return fmt.Sprintf("%q", b)
}

// ---------------------------------------------------------------------------
// scans

type KVPair struct {
	K, V []byte
	Tomb bool
}

// Drain consumes an iterator from its current position.
func Drain(it iterator.Iterator, limit int) []KVPair {
	var out []KVPair
	for it.Valid() {
		out = append(out, KVPair{K: append([]byte{}, it.Key()...), V: append([]byte(nil), it.Value()...), Tomb: it.IsTombstone()})
		if len(out) >= limit {
			break
		}
		if !it.Next() {
			break
		}
	}
	return out
}

// CheckScan compares the entries an iterator delivered with the model restricted
// to [start,end) (nil = unbounded) and to keys >= from (nil = all). It returns a
// description of the first discrepancy or "".
func CheckScan(got []KVPair, m *Model, start, end, from []byte) string {
	return CheckScanF(got, m, func(kb []byte) bool {
		if start != nil && bytes.Compare(kb, start) < 0 {
			return false
		}
		if end != nil && bytes.Compare(kb, end) >= 0 {
			return false
		}
		if from != nil && bytes.Compare(kb, from) < 0 {
			return false
		}
		return true
	})
}

// CheckScanF is CheckScan for an arbitrary membership predicate of the requested set.
func CheckScanF(got []KVPair, m *Model, in func([]byte) bool) string {
	var want []string
	for _, k := range m.Sorted() {
		if in([]byte(k)) {
			want = append(want, k)
		}
	}
	var prev []byte
	var live []KVPair
	for i, e := range got {
		if i > 0 && bytes.Compare(e.K, prev) <= 0 {
			return fmt.Sprintf("not strictly ascending at position %d: %s after %s", i, Q(e.K), Q(prev))
		}
		prev = e.K
		if !in(e.K) {
			return fmt.Sprintf("key %s is outside the requested set", Q(e.K))
		}
		if e.Tomb {
			if _, ok := m.M[string(e.K)]; ok {
				return fmt.Sprintf("live key %s delivered as deletion marker", Q(e.K))
			}
			continue
		}
		live = append(live, e)
	}
	for i := 0; i < len(live) || i < len(want); i++ {
		if i >= len(live) {
			return fmt.Sprintf("live key %s missing from scan (got %d live entries, want %d)", Q([]byte(want[i])), len(live), len(want))
		}
		if i >= len(want) {
			return fmt.Sprintf("scan delivered %s=%s which is not live in the model", Q(live[i].K), Q(live[i].V))
		}
		if string(live[i].K) != want[i] {
			if string(live[i].K) < want[i] {
				return fmt.Sprintf("scan delivered %s=%s which is not live in the model", Q(live[i].K), Q(live[i].V))
			}
			return fmt.Sprintf("live key %s missing from scan (next delivered %s)", Q([]byte(want[i])), Q(live[i].K))
		}
		if !bytes.Equal(live[i].V, m.M[want[i]]) {
			return fmt.Sprintf("key %s scanned as %s, latest write is %s", Q(live[i].K), Q(live[i].V), Q(m.M[want[i]]))
		}
	}
	return ""
}
