package kv

import (
	"bytes"
	"encoding/hex"
	"encoding/json"
	"fmt"
	"os"
	"os/exec"
	"strconv"
	"strings"
	"syscall"
	"time"

	"github.com/KevoDB/kevo/pkg/verifhook"
	"github.com/KevoDB/kevo/pkg/wal"

	"verif/internal/core"
)

// ChildSpec describes the deterministic write program a crash child runs.
type ChildSpec struct {
	Dir      string  `json:"dir"`
	Cfg      Cfg     `json:"cfg"`
	Seed     uint64  `json:"seed"`
	Tag      string  `json:"tag"`
	Opts     GenOpts `json:"opts"`
	KeySeed  uint64  `json:"key_seed"` // the key space is shared by all cycles of a case
	Journal  string  `json:"journal"`
	Profile  string  `json:"profile,omitempty"` // dump hook hit counts here at exit
	NoClose  bool    `json:"no_close,omitempty"`
	SleepEnd int     `json:"sleep_end_ms,omitempty"` // idle time before close (lets background work reach its sites)
	// PJournal makes the journal use pwrite(2) (on the O_APPEND descriptor it still appends), so that
	// faults injected into write(2) never hit the journal itself
	PJournal bool `json:"pjournal,omitempty"`
	// DumpState: before closing, write the result of a full scan here ("K <hexkey> <len> <hash>" lines)
	DumpState string `json:"dump_state,omitempty"`
}

// ProgramOf regenerates the program of a spec (parent and child compute the same).
func ProgramOf(s *ChildSpec) []Op {
	ks := GenKeySpace(core.NewRand(s.KeySeed), s.Opts.NKeys)
	ks.Locality = s.Opts.NKeys > 12
	return GenProgram(core.NewRand(s.Seed), ks, s.Tag, s.Opts)
}

// IsUnit reports whether an op is a write unit (journalled, judged atomically).
func IsUnit(op Op) bool {
	switch op.Kind {
	case "put", "del", "batch":
		return true
	case "tx":
		return op.Commit
	}
	return false
}

// ApplyUnit applies a write unit to the model.
func ApplyUnit(m *Model, op Op) {
	switch op.Kind {
	case "put":
		m.Put(op.Key, op.Val)
	case "del":
		m.Del(op.Key)
	case "batch", "tx":
		for _, s := range op.Sub {
			switch s.Kind {
			case "put":
				m.Put(s.Key, s.Val)
			case "del":
				m.Del(s.Key)
			}
		}
	}
}

var journalFile *os.File

var journalPwrite bool

func jwrite(fd int, s string) {
	if journalPwrite {
		syscall.Pwrite(fd, []byte(s), 0)
		return
	}
	syscall.Write(fd, []byte(s))
}

// ValSig is the representation of a value in a state dump.
func ValSig(v []byte) string { return fmt.Sprintf("%d %016x", len(v), core.HashStr(string(v))) }

// ReadStateDump parses a DumpState file; ok is false if the dump is missing or incomplete.
func ReadStateDump(path string) (map[string]string, bool) {
	b, err := os.ReadFile(path)
	if err != nil {
		return nil, false
	}
	st := map[string]string{}
	done := false
	for _, l := range strings.Split(string(b), "\n") {
		f := strings.SplitN(l, " ", 3)
		switch {
		case f[0] == "K" && len(f) == 3:
			k, _ := hex.DecodeString(f[1])
			st[string(k)] = f[2]
		case f[0] == "END":
			done = true
		}
	}
	return st, done
}

// ChildMain is the entry point of `kvmon crashchild <spec.json>`.
func ChildMain(args []string) {
	b, err := os.ReadFile(args[0])
	if err != nil {
		fmt.Fprintln(os.Stderr, err)
		os.Exit(2)
	}
	var s ChildSpec
	if err := json.Unmarshal(b, &s); err != nil {
		fmt.Fprintln(os.Stderr, err)
		os.Exit(2)
	}
	jf, err := os.OpenFile(s.Journal, os.O_WRONLY|os.O_CREATE|os.O_APPEND, 0644)
	if err != nil {
		fmt.Fprintln(os.Stderr, err)
		os.Exit(2)
	}
	journalPwrite = s.PJournal
	journalFile = jf // keep the descriptor open: an unreferenced *os.File is closed by its finalizer
	jfd := int(jf.Fd())
	verifhook.SetJournalFd(jfd)
	prog := ProgramOf(&s)
	eng, err := Open(s.Dir, s.Cfg)
	if err != nil {
		jwrite(jfd, "OPENERR "+strings.ReplaceAll(err.Error(), "\n", " ")+"\n")
		os.Exit(3)
	}
	jwrite(jfd, "OPENED\n")
	unit := 0
	for _, op := range prog {
		if IsUnit(op) {
			jwrite(jfd, fmt.Sprintf("I %d\n", unit))
		}
		var err error
		switch op.Kind {
		case "put":
			err = eng.Put(op.Key, op.Val)
		case "del":
			err = eng.Delete(op.Key)
		case "batch":
			var ents []*wal.Entry
			for _, x := range op.Sub {
				if x.Kind == "put" {
					ents = append(ents, &wal.Entry{Type: wal.OpTypePut, Key: x.Key, Value: x.Val})
				} else {
					ents = append(ents, &wal.Entry{Type: wal.OpTypeDelete, Key: x.Key})
				}
			}
			err = eng.ApplyBatch(ents)
		case "tx":
			tx, e := eng.BeginTransaction(false)
			if e != nil {
				err = e
				break
			}
			for _, x := range op.Sub {
				switch x.Kind {
				case "put":
					tx.Put(x.Key, x.Val)
				case "del":
					tx.Delete(x.Key)
				case "get":
					tx.Get(x.Key)
				}
			}
			if op.Commit {
				err = tx.Commit()
			} else {
				tx.Rollback()
			}
		case "get":
			eng.Get(op.Key)
		case "flush":
			eng.FlushImMemTables()
		case "compact":
			eng.TriggerCompaction()
		case "crange":
			eng.CompactRange(op.Key, op.End)
		}
		if IsUnit(op) {
			if err != nil {
				jwrite(jfd, fmt.Sprintf("E %d %s\n", unit, strings.ReplaceAll(err.Error(), "\n", " ")))
			} else {
				jwrite(jfd, fmt.Sprintf("A %d\n", unit))
			}
			unit++
		}
	}
	if s.SleepEnd > 0 {
		time.Sleep(time.Duration(s.SleepEnd) * time.Millisecond)
	}
	if s.DumpState != "" {
		var sb strings.Builder
		if it, err := eng.GetIterator(); err == nil {
			it.SeekToFirst()
			for _, p := range Drain(it, 1<<22) {
				if !p.Tomb {
					fmt.Fprintf(&sb, "K %s %s\n", hex.EncodeToString(p.K), ValSig(p.V))
				}
			}
			sb.WriteString("END\n")
		} else {
			sb.WriteString("ITERERR " + err.Error() + "\n")
		}
		if f, err := os.OpenFile(s.DumpState, os.O_WRONLY|os.O_CREATE|os.O_APPEND, 0644); err == nil {
			syscall.Pwrite(int(f.Fd()), []byte(sb.String()), 0)
			f.Close()
		}
	}
	if !s.NoClose {
		if err := eng.Close(); err != nil {
			jwrite(jfd, "CLOSEERR "+strings.ReplaceAll(err.Error(), "\n", " ")+"\n")
		}
	}
	if s.Profile != "" {
		verifhook.DumpCounts(s.Profile)
	}
	jwrite(jfd, "CLEAN\n")
	os.Exit(0)
}

// Journal is what the parent reads back after the child has died or finished.
type Journal struct {
	Opened  bool
	OpenErr string
	Issued  int          // units issued
	Acked   map[int]bool // units acknowledged without error
	Errored map[int]string
	Crash   string // "site n" if the armed crash fired
	Clean   bool
}

func ReadJournal(path string) *Journal {
	j := &Journal{Acked: map[int]bool{}, Errored: map[int]string{}}
	b, _ := os.ReadFile(path)
	for _, l := range strings.Split(string(b), "\n") {
		f := strings.SplitN(l, " ", 3)
		switch f[0] {
		case "OPENED":
			j.Opened = true
		case "OPENERR":
			j.OpenErr = l
		case "I":
			n, _ := strconv.Atoi(f[1])
			if n+1 > j.Issued {
				j.Issued = n + 1
			}
		case "A":
			n, _ := strconv.Atoi(f[1])
			j.Acked[n] = true
		case "E":
			n, _ := strconv.Atoi(f[1])
			if len(f) > 2 {
				j.Errored[n] = f[2]
			} else {
				j.Errored[n] = "error"
			}
		case "CRASH":
			j.Crash = strings.TrimPrefix(l, "CRASH ")
		case "CLEAN":
			j.Clean = true
		}
	}
	return j
}

// RunChild runs the crash child; crash is "site:n" or "".
func RunChild(self string, spec *ChildSpec, specPath, crash string, yield string, timeout time.Duration) (exitErr error, stderr string) {
	b, _ := json.Marshal(spec)
	os.WriteFile(specPath, b, 0644)
	cmd := exec.Command(self, "crashchild", specPath)
	cmd.Env = append(os.Environ(), "GOTRACEBACK=all")
	if crash != "" {
		// a kill that lands while another goroutine is inside a write(2) to the log
		// buffer can cut that write short: torn writes are explored by truncation (C03/C10), not here
		cmd.Env = append(cmd.Env, "VERIF_CRASH="+crash, "VERIF_CRASH_BARRIER=wal.locked.enter>wal.locked.leave>wal.")
	}
	if yield != "" {
		cmd.Env = append(cmd.Env, "VERIF_YIELD="+yield)
	}
	var eb bytes.Buffer
	cmd.Stderr = &eb
	if err := cmd.Start(); err != nil {
		return err, ""
	}
	done := make(chan error, 1)
	go func() { done <- cmd.Wait() }()
	select {
	case err := <-done:
		s := eb.String()
		if len(s) > 6000 {
			s = s[len(s)-6000:]
		}
		return err, s
	case <-time.After(timeout):
		cmd.Process.Signal(syscall.SIGQUIT)
		time.Sleep(500 * time.Millisecond)
		cmd.Process.Kill()
		<-done
		s := eb.String()
		if len(s) > 12000 {
			s = s[len(s)-12000:]
		}
		return fmt.Errorf("child timed out after %s", timeout), s
	}
}

// WriteSpec stores a child spec as JSON.
func WriteSpec(spec *ChildSpec, path string) {
	b, _ := json.Marshal(spec)
	os.WriteFile(path, b, 0644)
}

// ReadProfile parses the "site count" lines a child dumped.
func ReadProfile(path string) map[string]int {
	m := map[string]int{}
	b, _ := os.ReadFile(path)
	for _, l := range strings.Split(string(b), "\n") {
		f := strings.Fields(l)
		if len(f) == 2 {
			n, _ := strconv.Atoi(f[1])
			m[f[0]] = n
		}
	}
	return m
}

// StateOf reads every key of the set (and a full scan) from an open engine.
func StateOf(get func([]byte) ([]byte, error), keys []string) (map[string][]byte, error) {
	st := map[string][]byte{}
	for _, k := range keys {
		v, err := get([]byte(k))
		if err != nil {
			if IsNotFound(err) {
				continue
			}
			return nil, fmt.Errorf("get(%s): %v", Q([]byte(k)), err)
		}
		st[k] = append([]byte{}, v...)
	}
	return st, nil
}

// MatchPrefix finds all j in [lo,hi] such that the recovered state equals the
// base model plus the first j units; errored units may or may not have taken effect.
// It returns the matching prefix lengths and, for diagnostics, the closest prefix.
func MatchPrefix(base *Model, units []Op, errored map[int]string, state map[string][]byte, keys []string, lo, hi int) (matches []int, models []*Model, closest int, closestDiff string) {
	type cand struct {
		m *Model
	}
	cands := []*Model{base.Clone()}
	best := -1
	bestN := 1 << 30
	check := func(j int) {
		for _, m := range cands {
			nd, first := diffState(m, state, keys)
			if nd == 0 {
				if j >= lo && j <= hi {
					matches = append(matches, j)
					models = append(models, m.Clone())
				}
			}
			if nd < bestN || (nd == bestN && j >= lo && j <= hi && !(best >= lo && best <= hi)) {
				bestN, best, closestDiff = nd, j, first
			}
		}
	}
	check(0)
	for j := 1; j <= len(units) && j <= hi; j++ {
		var next []*Model
		for _, m := range cands {
			if _, bad := errored[j-1]; bad {
				next = append(next, m.Clone()) // the failed unit took no effect ...
			}
			a := m.Clone()
			ApplyUnit(a, units[j-1]) // ... or it did
			next = append(next, a)
		}
		// identical candidates are merged (most failed units touch keys that later units overwrite)
		if len(next) > 1 {
			seen := map[string]bool{}
			var uniq []*Model
			for _, m := range next {
				var sb strings.Builder
				for _, k := range keys {
					if v, live := m.M[k]; live {
						fmt.Fprintf(&sb, "%d:%016x;", len(v), core.HashStr(string(v)))
					} else {
						sb.WriteString("-;")
					}
				}
				if sg := sb.String(); !seen[sg] {
					seen[sg] = true
					uniq = append(uniq, m)
				}
			}
			next = uniq
		}
		if len(next) > 256 {
			next = next[:256]
		}
		cands = next
		check(j)
	}
	return matches, models, best, closestDiff
}

func diffState(m *Model, state map[string][]byte, keys []string) (int, string) {
	n := 0
	first := ""
	for _, k := range keys {
		want, live := m.M[k]
		got, have := state[k]
		if live != have || (live && !bytes.Equal(want, got)) {
			n++
			if first == "" {
				w, g := "absent", "absent"
				if live {
					w = Q(want)
				}
				if have {
					g = Q(got)
				}
				first = fmt.Sprintf("key %s: recovered %s, prefix state has %s", Q([]byte(k)), g, w)
			}
		}
	}
	return n, first
}
