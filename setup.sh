#!/bin/bash
# MANIFEST.setup_cmd: offline warm build of the harness (plain and -race) against /repo's working tree.
set -u
cd "$(dirname "$0")"
unset GOSUMDB GOTOOLCHAIN GONOSUMDB GONOSUMCHECK
export GOFLAGS=-mod=mod GOPROXY=off GOTOOLCHAIN=auto
mkdir -p bin evidence
cat /repo/go.sum harness/extra.sum | sort -u > harness/go.sum
( cd harness && go build -tags verif -o ../bin/kvmon ./cmd/kvmon ) || ( cd harness && GOTOOLCHAIN=local go1.26.8 build -tags verif -o ../bin/kvmon ./cmd/kvmon ) || exit 1
( cd harness && go build -tags verif -race -o ../bin/kvmon-race ./cmd/kvmon ) || ( cd harness && GOTOOLCHAIN=local go1.26.8 build -tags verif -race -o ../bin/kvmon-race ./cmd/kvmon ) || exit 1
echo setup ok
