#!/bin/bash
# sweep.sh <tier> <seeds...>: runs every check at the given tier and seeds, one line per run.
# Meant for `vp run --with-repo -- tools/sweep.sh thorough 1` (builds $VP_RUN_REPO, not /repo).
cd "$(dirname "$0")/.."
[ -n "${VP_RUN_REPO:-}" ] && export VERIF_REPO=$VP_RUN_REPO
tier=$1; shift
for seed in "$@"; do
  for p in ${SWEEP_CHECKS:-C01 C02 C03 C04 C05 C06 C07 C08 C09 C10 C11 C12 C13 C14 C15 C16 C17 C18 C19 C20}; do
    t0=$(date +%s)
    out=$(VERIF_SEED=$seed ./check $p $tier 2>&1); rc=$?
    echo "seed=$seed $p rc=$rc $(( $(date +%s) - t0 ))s $(echo "$out" | grep -c '^VIOLATION') violations; $(echo "$out" | grep '^SUMMARY' | cut -c1-160)"
    [ $rc -ne 0 ] && echo "$out" | grep -A4 '^VIOLATION\|^HARNESS\|^INCONCLUSIVE' | cut -c1-400 | head -40
  done
done
