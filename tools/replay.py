#!/usr/bin/env python3
"""replay.py <replay.json>: re-runs the single case recorded in a replay file."""
import json, sys, subprocess, os
d = json.load(open(sys.argv[1]))
here = os.path.dirname(os.path.dirname(os.path.abspath(__file__)))
sys.exit(subprocess.call([os.path.join(here, "check"), "replay", d["property"], d["tier"], str(d["seed"]), str(d["case"])]))
