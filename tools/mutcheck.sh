#!/bin/bash
# mutcheck.sh <patch.diff | -R:<commit>> <Cxx>...   apply a change to /repo, run the quick checks, restore /repo.
# Prints one line per check: CAUGHT / MISSED (exit code, number of VIOLATION lines).
set -u
cd "$(dirname "$0")/.."
what=$1; shift
if ! git -C /repo diff --quiet HEAD; then echo "/repo has uncommitted changes; refusing"; exit 2; fi
if [[ "$what" == -R:* ]]; then
  git -C /repo show "${what#-R:}" | git -C /repo apply -R || { echo "cannot reverse ${what#-R:}"; exit 2; }
else
  git -C /repo apply "$(realpath "$what")" || git -C /repo apply -3 "$(realpath "$what")" || { echo "cannot apply $what"; git -C /repo reset -q; git -C /repo checkout -- .; exit 2; }
fi
tier=${MUT_TIER:-quick}
for p in "$@"; do
  out=$(VERIF_SEED=${VERIF_SEED:-1} ./check "$p" $tier 2>&1); rc=$?
  nv=$(echo "$out" | grep -c '^VIOLATION')
  cls=$(echo "$out" | grep '^violations by class' | head -1)
  if [ $rc -eq 1 ] && [ $nv -gt 0 ]; then echo "CAUGHT $p rc=$rc violations=$nv $cls"; else echo "MISSED $p rc=$rc violations=$nv $(echo "$out" | grep -E 'HARNESS|build failed' | head -2)"; fi
  [ -n "${MUT_VERBOSE:-}" ] && echo "$out" | grep -A3 '^VIOLATION' | head -${MUT_VERBOSE}
done
git -C /repo reset -q; git -C /repo checkout -- . ; git -C /repo status --short | grep -v '^??' | head -3
# restore evidence written by the mutated run
git checkout -- evidence 2>/dev/null
