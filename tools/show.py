#!/usr/bin/env python3
# show.py <replay.json>... : print a violation witness, filtered to the ops that touch the failing key plus maintenance ops
import json,sys,re
for f in sys.argv[1:]:
    d=json.load(open(f))
    print('==',f); print(d['class'], d['features'])
    t=d['detail'].split('\n')
    print('\n'.join(l[:300] for l in t[:3]))
    m=re.search(r'(?:get|key)[ (]*("(?:[^"\\]|\\.)*")',t[0])
    key=m.group(1)[:26] if m else None
    for l in t[3:]:
        if (key and key in l) or re.search(r'^\s*\d+ (flush|compact|reopen|retire|crange)',l): print(l[:260])
