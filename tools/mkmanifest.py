#!/usr/bin/env python3
"""Regenerates /verif/MANIFEST.json from the table below (kept in one place so it stays valid)."""
import json, subprocess, os

HERE = os.path.dirname(os.path.dirname(os.path.abspath(__file__)))

# property -> (category, technique, level text, level note, design ref)
CHECKS = {
    "C01": ("exploration",
            "runtime differential monitor: generated single-client programs on the real engine vs a sequential map model",
            "Every point read of thousands of generated programs (put/delete/tx/batch/flush/compaction/range compaction/reopen/log retirement, "
            "PRNG-drawn layer-moving configurations, binary/long/1-byte/4096-byte keys, empty to multi-fragment values) is compared with a map model. "
            "Held on the executions produced; exploration is the right level because the quantifier is over programs x inputs x configurations.",
            "trusted: the 30-line map model, the harness; background flush/compaction timing is whatever the scheduler produced (counted, not controlled)",
            "DESIGN.md 5/C01"),
    "C02": ("fault_enumeration",
            "process-kill enumeration at tag-guarded hook sites (SIGKILL to self at (site, n)) + in-process parked-goroutine directory snapshots (a maintenance or the writing goroutine is parked at a hook site while the other side goes on, the directory is copied) + strace syscall-order monitor; prefix oracle over an issue/ack journal, multi-cycle continuation",
            "A child process runs a deterministic write program; it is killed at PRNG-chosen (site, hit) pairs drawn from a profile of all hook sites (WAL append/sync/close, memtable insert, "
            "rotation, SSTable write/rename, compaction swap, engine close); a fresh engine must open the directory and equal model(prefix j) for an admissible j; the directory is continued for further cycles.",
            "SIGKILL keeps the page cache: lost-fsync is not visible to kills (the strace syscall-order cases judge fsync-before-ack instead); a kill landing while another goroutine is inside write(2) to the log is excluded by a hook barrier (torn writes: C03/C10); a directory copy is a process-death image only because every goroutine is parked, waiting or idle at that instant",
            "DESIGN.md 5/C02"),
    "C03": ("fault_enumeration",
            "kill enumeration inside the commit path + concurrent-observer monitor + torn-final-write truncation + failure/rollback trace checks + I/O-fault runs (strace -e inject on fsync/write/rename/unlink) for failed commits",
            "Crash atomicity of whole transactions (kills at the hook sites inside AppendBatch/ApplyBatch/Commit, transactions up to ~150KB), observers that read group keys in a known order while "
            "transactions commit (with yields between the memtable inserts of a batch), log cuts inside the byte range of a final commit, commits on a closed engine, rollbacks, buffer reuse.",
            "torn writes are simulated by truncation of a cleanly stopped database; plain (non-transactional) scans concurrent with a commit are outside the statement",
            "DESIGN.md 5/C03"),
    "C04": ("exploration",
            "porcupine linearizability check of recorded transaction histories against a model whose single operation is a whole transaction (= strict serializability) + inline own-write/repeatable-read checks",
            "3-8 concurrent clients run read-only and read-write transactions (gets, full/range scans, puts, deletes, commit/rollback, pauses, yields at the lock/commit hook sites); per transaction the "
            "external read set, write set, outcome and begin/finish times are recorded at the client boundary; porcupine searches a serial order consistent with real time.",
            "no non-transactional writes during a history; porcupine timeout => inconclusive",
            "DESIGN.md 5/C04"),
    "C05": ("exploration",
            "runtime differential monitor: batteries of scan/seek queries vs a sorted model at checkpoints of generated programs; concurrent scanners vs stable keys",
            "Full/range/prefix/suffix scans, Seek+Next runs, SeekToLast on engine, read-only and read-write transaction iterators (own writes overlaid) compared with the sorted model for data spread "
            "over memtables, immutable memtables and (multi-block) SSTables; concurrent scans must be ascending, duplicate-free and contain every stable key.",
            "deletion markers surfaced by engine iterators are legal; thorough tier runs under the race detector",
            "DESIGN.md 5/C05"),
    "C06": ("exploration",
            "porcupine linearizability check (partitioned by key, register model with 'absent', failed writes as no-ops) of client-boundary histories recorded under rotation-heavy configurations with injected yields + I/O-fault runs (strace -e inject fails fsync/write/rename/unlink of the database files; acknowledged-units-only model before close and after reopen)",
            "4-12 clients on 2-6 keys with unique values, memtables of 1 byte..4KB (switch/flush/rotation every few writes), background compaction and an extra flush/compaction goroutine, yields at "
            "the hook sites between log append, memtable insert, switch, rotation and flush publication; a final read of every key pins exactly-once.",
            "many short histories; Close concurrent with calls out of scope; which call strace fails is counted per thread and therefore not reproducible from the seed (the oracle depends only on the journal of acknowledged/failed units)",
            "DESIGN.md 5/C06"),
    "C07": ("exploration",
            "Go race detector (-race, checkptr) over a reflection-driven stress of every public entry point + hang watchdog with goroutine dump + post-stress lock probe",
            "8-24 goroutines call every method of *EngineFacade found by reflection plus transactions with iterators, registry begin/get/remove/sweep/cleanup with short deadlines, batches, flush, "
            "compaction, range compaction, statistics and WAL accessors on tiny-memtable engines; any race report, fatal error, panic, non-zero exit or a case exceeding 120s is a violation.",
            "reports de-duplicated by the first kevo frames of both stacks; the detector sees only executed interleavings",
            "DESIGN.md 5/C07"),
    "C08": ("exploration",
            "online monotonicity monitor (statistics + next log sequence sampled after every call, across restarts) + offline log read-back ordering check + real-time-order vs sequence check on concurrent histories + post-crash check",
            "Sequential programs with flushes, rotations, compactions, restarts, batches/transactions; kill-at-hook-site recoveries followed by a write; concurrent histories where for every pair "
            "A.return < B.call seq(A) < seq(B) (sequences read back from the log through unique values).",
            "a restart after the log was retired completely restarts the counter (finding D36, exercised by a dedicated deterministic case)",
            "DESIGN.md 5/C08"),
    "C09": ("exploration",
            "runtime differential monitor on pkg/wal: appended list vs ReplayWALDir / per-file replay / GetEntriesFrom",
            "Generated append/batch/with-sequence sequences with lengths on both sides of every format boundary, rotation and reuse points, all sync modes; replay must return exactly the appended list.",
            "sequence numbers passed explicitly are increasing (as the replication applier passes them)",
            "DESIGN.md 5/C09"),
    "C10": ("fault_enumeration",
            "fault enumeration on log files (every truncation length / single-byte corruption classes) with prefix+subset oracles at log and engine level, second recovery",
            "For logs of 10-150 units in 1-3 files with stat-observed unit end offsets: every truncation length (exhaustive for small files) and header/payload corruptions; ReplayWALDir must return "
            "the intact prefix plus only appended entries; the engine must open, show no foreign key, keep every log file; writes after the recovery must survive the next restart.",
            "order among survivors of the damaged region is not judged; appended list is read back from the undamaged log",
            "DESIGN.md 5/C10"),
    "C11": ("exploration",
            "runtime differential monitor on pkg/sstable (writer -> reader) + single-byte corruption enumeration",
            "Ascending entry sets from 1 entry to tens of blocks read back by iteration, Seek (present/between/before/after/block-boundary), SeekToLast and Reader.Get; stratified single-byte "
            "corruptions must yield an error, a short iteration or only written entries (a panic counts as violation).",
            "keys non-empty, <= 65535 bytes",
            "DESIGN.md 5/C11"),
    "C12": ("exploration",
            "file-level monitor (newest-wins merged view of all table files before/after each compaction) + engine-level model comparison after reopen on compacted files",
            "Compaction-dense programs with key locality, tiny memtables and all selection branches; around every triggered/range compaction the merged view of all table files must be unchanged "
            "(a delete marker may vanish only if no older version remains anywhere), files strictly ascending; reads compared with the model after reopening with the log retired.",
            "file recency = documented naming (level, creation time); background compaction off in 70% of cases so one compaction is bracketed",
            "DESIGN.md 5/C12"),
    "C13": ("exploration",
            "apply-log monitor (recording applier + prefix/order oracle) under generated hostile delivery schedules, at the batch-applier level and with the real Replica against a scripted gRPC primary; codec round trips",
            "Histories of single operations and transactions delivered with splits, duplicates, overlaps, gaps, swaps, stream resets; every applied entry must be the next history entry (or an idempotent "
            "stutter inside the current transaction), nothing skipped after an honest tail, reported applied sequence monotone and never ahead.",
            "messages cut at unit boundaries; mid-transaction splits are a separate class (finding D44); transient apply errors injected in every 8th applier case",
            "DESIGN.md 5/C13"),
    "C14": ("exploration",
            "bounded-progress monitor over real primary/replica managers on loopback: scenario matrix (workload x join time x restart/link cut x 1-2 replicas), full-scan equality (wait ends after 60s without progress) and again 2s later",
            "Real engines and replication.Manager instances; workloads with single writes, >100 entries, multi-key and >=100-operation transactions, log rotation on the primary, large values; "
            "replicas join before/during/after, are restarted on the same directory or lose their link through a controllable TCP proxy.",
            "liveness judged as bounded progress (60s without any change of the replica contents; hard cap 10 min)",
            "DESIGN.md 5/C14"),
    "C15": ("exploration",
            "latency/progress monitor on a real primary next to fault-injected peers (never-reading, slow, non-acking, NACKing, flapping, TCP-stalled/cut through a proxy), topology and convergence checks",
            "A client workload of several MB (4KB values, gets, transactions) runs while misbehaving peers are attached alone or next to healthy acknowledging peers; every call must return without "
            "error, progress must not stop for 10s (witness: parked kevo goroutines), peers whose connection ended must leave the reported topology within 3x the heartbeat timeout, healthy replicas converge.",
            "bounded liveness; 'dropped from the topology' judged for ended connections only (see D23b in DESIGN.md)",
            "DESIGN.md 5/C15"),
    "C16": ("exploration",
            "reflection-enumerated call monitor between state snapshots on a real replica + concurrent applier-vs-clients monitor + node-info comparison",
            "Every method of *EngineFacade, the transaction interface and the generated service client is called on a replica made read-only by a real replication.Manager: mutators must fail with a "
            "read-only error and leave scan and log position unchanged; an applier goroutine applies a generated stream through the real EngineApplier while clients hammer the mutators and a sampler "
            "watches the read-only flag; GetNodeInfo of standalone/primary/replica managers is compared with the configuration.",
            "flush/compaction requests are maintenance, only required to leave data unchanged",
            "DESIGN.md 5/C16"),
    "C17": ("exploration",
            "protocol monitor (two-state machine per transaction) + lock-leak probe after every scenario (fresh read-write transaction within 10s) over embedded, registry and service transactions",
            "Generated finish/use-after-finish sequences, concurrent clients, abandonment cleaned by the exported sweep / connection cleanup / shutdown, begin requests whose deadline expires while "
            "the lock is held, failed commits (closed storage), invalid service arguments mid-transaction.",
            "a client holding a transaction while requesting another is excluded; the 30s ticker is bypassed by calling the exported sweep",
            "DESIGN.md 5/C17"),
    "C18": ("exploration",
            "Go race detector + runtime reference-model monitor on pkg/memtable (sequential and one-writer/many-readers with a published-prefix protocol)",
            "Arbitrary insert/delete sequences with non-monotone and repeated sequence numbers checked for max-sequence Get, (key asc, seq desc) iteration, Seek, immutability; concurrent readers "
            "must see sorted traversals containing everything inserted before they started; MemTablePool under concurrent switching; all under -race.",
            "single writer (as the engine guarantees); ties accept any tied entry",
            "DESIGN.md 5/C18"),
    "C19": ("exploration",
            "runtime differential monitor: generated gRPC request sequences through the real service (bufconn) vs the sequential map + sorted scan model; lock probe after every rejected request",
            "get/put/delete/batch write/scan with every option combination/transactions by handle/node info incl. boundary sizes (key 0/1/4096/4097, value 10MB/10MB+1, batch 1000/1001), unknown and "
            "finished handles; rejected requests must leave data and lock state unchanged.",
            "scan option precedence as documented; TxGet with an invalid key may release its transaction (either outcome followed)",
            "DESIGN.md 5/C19"),
    "C20": ("exploration",
            "runtime differential monitor: Validate vs an independent restatement of the constraints; save/load round trip; directory snapshots; truncated/invalid manifests at engine open",
            "Thousands of boundary configurations: Validate()==nil iff the documented constraints hold; invalid => nothing written; valid => field-for-field round trip; a database reopens with its "
            "stored configuration; every truncation of the MANIFEST and invalid rewrites make NewEngineFacade fail without touching any file.",
            "documented constraints = messages of Validate + docs/config.md; a missing MANIFEST is a new database",
            "DESIGN.md 5/C20"),
}

NOT_YET = {}

def main():
    hooks = subprocess.run(["git", "-C", "/repo", "log", "--reverse", "--format=%H %s", "9a570ef..HEAD"],
                           capture_output=True, text=True).stdout.splitlines()
    hook_commits = [l.split()[0] for l in hooks if l.split(" ", 1)[1].startswith("verif:")]
    props = [json.loads(l)["id"] for l in open(os.path.join(HERE, "properties.jsonl"))]
    checks = []
    for pid in props:
        if pid not in CHECKS:
            continue
        cat, tech, text, note, ref = CHECKS[pid]
        checks.append({
            "property_id": pid,
            "quick_cmd": f"./check {pid} quick",
            "thorough_cmd": f"./check {pid} thorough",
            "evidence_file": f"/verif/evidence/{pid}.json",
            "replay_cmd_template": "python3 tools/replay.py {path}",
            "engine": "kvmon",
            "level_claimed": {"category": cat, "text": text, "design_ref": ref},
            "level_note": note,
            "technique": tech,
        })
    na = [{"property_id": p, "reason": NOT_YET.get(p, "monitor not built yet in this round (planned: see DESIGN.md section 5)")}
          for p in props if p not in CHECKS]
    m = {
        "version": 1,
        "setup_cmd": "./setup.sh",
        "hooks": {
            "guard": "verif",
            "enable": "go build -tags verif (the harness module replaces github.com/KevoDB/kevo with /repo, so every check compiles /repo's working tree with pkg/verifhook enabled)",
            "baseline_off_cmd": "cd /repo && go test -mod=mod -json -vet=off -count=1 -timeout 25m ./...",
            "source_commits": hook_commits,
            "add_only": True,
        },
        "engines": [{
            "name": "kvmon", "path": "/verif/harness",
            "serves_properties": [c["property_id"] for c in checks],
            "kind_free_text": "Go harness (module 'verif', replace => /repo): orchestrator + child-process workers; reference-model monitors, porcupine history checkers, "
                              "fault/crash enumeration through tag-guarded hook points, Go race detector",
        }],
        "checks": checks,
        "notes": "Runtime monitoring only. KNOWN_FINDINGS.txt lists recorded findings and fixed defects; ./check prints KNOWN-FINDING lines for listed findings that reproduce.",
        "not_applicable": na,
    }
    json.dump(m, open(os.path.join(HERE, "MANIFEST.json"), "w"), indent=1)
    print("MANIFEST.json:", len(checks), "checks,", len(na), "not_applicable")

if __name__ == "__main__":
    main()
