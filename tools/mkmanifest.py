#!/usr/bin/env python3
"""Regenerates /verif/MANIFEST.json from the table below (kept in one place so it stays valid)."""
import json, subprocess, os

HERE = os.path.dirname(os.path.dirname(os.path.abspath(__file__)))

# property -> (category, technique, level text, level note, design ref)
CHECKS = {
    "C01": ("exploration",
            "runtime differential monitor: generated single-client programs on the real engine vs a sequential map model",
            "Every point read of thousands of generated programs (put/delete/tx/batch/flush/compaction/range compaction/reopen/log retirement, "
            "PRNG-drawn layer-moving configurations, binary/long/1-byte/4096-byte keys, empty to multi-fragment values) is compared with a map model. "
            "Held on the executions produced; exploration is the right level because the quantifier is over programs x inputs x configurations.",
            "trusted: the 30-line map model, the harness; background flush/compaction timing is whatever the scheduler produced (counted, not controlled)",
            "DESIGN.md 5/C01"),
}

NOT_YET = {}

def main():
    hooks = subprocess.run(["git", "-C", "/repo", "log", "--reverse", "--format=%H %s", "9a570ef..HEAD"],
                           capture_output=True, text=True).stdout.splitlines()
    hook_commits = [l.split()[0] for l in hooks if l.split(" ", 1)[1].startswith("verif:")]
    props = [json.loads(l)["id"] for l in open(os.path.join(HERE, "properties.jsonl"))]
    checks = []
    for pid in props:
        if pid not in CHECKS:
            continue
        cat, tech, text, note, ref = CHECKS[pid]
        checks.append({
            "property_id": pid,
            "quick_cmd": f"./check {pid} quick",
            "thorough_cmd": f"./check {pid} thorough",
            "evidence_file": f"/verif/evidence/{pid}.json",
            "replay_cmd_template": "python3 tools/replay.py {path}",
            "engine": "kvmon",
            "level_claimed": {"category": cat, "text": text, "design_ref": ref},
            "level_note": note,
            "technique": tech,
        })
    na = [{"property_id": p, "reason": NOT_YET.get(p, "monitor not built yet in this round (planned: see DESIGN.md section 5)")}
          for p in props if p not in CHECKS]
    m = {
        "version": 1,
        "setup_cmd": "./setup.sh",
        "hooks": {
            "guard": "verif",
            "enable": "go build -tags verif (the harness module replaces github.com/KevoDB/kevo with /repo, so every check compiles /repo's working tree with pkg/verifhook enabled)",
            "baseline_off_cmd": "cd /repo && go test -mod=mod -json -vet=off -count=1 -timeout 25m ./...",
            "source_commits": hook_commits,
            "add_only": True,
        },
        "engines": [{
            "name": "kvmon", "path": "/verif/harness",
            "serves_properties": [c["property_id"] for c in checks],
            "kind_free_text": "Go harness (module 'verif', replace => /repo): orchestrator + child-process workers; reference-model monitors, porcupine history checkers, "
                              "fault/crash enumeration through tag-guarded hook points, Go race detector",
        }],
        "checks": checks,
        "notes": "Runtime monitoring only. KNOWN_FINDINGS.txt lists recorded findings and fixed defects; ./check prints KNOWN-FINDING lines for listed findings that reproduce.",
        "not_applicable": na,
    }
    json.dump(m, open(os.path.join(HERE, "MANIFEST.json"), "w"), indent=1)
    print("MANIFEST.json:", len(checks), "checks,", len(na), "not_applicable")

if __name__ == "__main__":
    main()
