#!/bin/bash
# regen_evidence.sh: runs every check's quick command once with VERIF_SEED=1, sequentially, against /repo
# (this rewrites evidence/<id>.json), validates every evidence file and MANIFEST.json against the schemas,
# and regenerates MANIFEST.json. Prints one line per check; exit 1 if anything is not clean.
cd "$(dirname "$0")/.."
bad=0
for p in C01 C02 C03 C04 C05 C06 C07 C08 C09 C10 C11 C12 C13 C14 C15 C16 C17 C18 C19 C20; do
  out=$(VERIF_SEED=1 ./check $p quick 2>&1); rc=$?
  nv=$(echo "$out" | grep -c '^VIOLATION')
  echo "$p rc=$rc violations=$nv $(echo "$out" | grep '^SUMMARY' | cut -c1-140)"
  [ $rc -ne 0 ] || [ $nv -ne 0 ] && { bad=1; echo "$out" | grep -A4 '^VIOLATION\|^HARNESS\|^INCONCL' | cut -c1-300 | head -20; }
done
python3 tools/mkmanifest.py || bad=1
python3-vt - <<'PY' || bad=1
import json, jsonschema, glob, sys
ms = json.load(open('/root/.vp/MANIFEST.schema.json')); es = json.load(open('/root/.vp/EVIDENCE.schema.json'))
jsonschema.validate(json.load(open('/verif/MANIFEST.json')), ms)
n = 0
for f in sorted(glob.glob('/verif/evidence/C*.json')):
    jsonschema.validate(json.load(open(f)), es); n += 1
print("schemas ok:", n, "evidence files + MANIFEST")
sys.exit(0 if n == 20 else 1)
PY
exit $bad
