#!/bin/bash
# verify_mutant.sh <mutant dir with patch.diff, demo_test.go, README.md> [worktree dir]
# Confirms in a scratch worktree of /repo: demo passes without the patch; with the patch it builds,
# the demo fails and the existing suite (fast variant) still passes. Prints one RESULT line.
set -u
export GOFLAGS=-mod=mod GOPROXY=off
d=$(realpath "$1"); wt=${2:-/tmp/vm.$$}
cmd=$(grep -o 'go test[^`]*-run[^`]*' "$d/README.md" | head -1)
pkg=$(echo "$cmd" | grep -o '\./pkg/[a-z/_]*' | head -1)
run=$(echo "$cmd" | sed -E "s/.*-run +'?([A-Za-z0-9_|]+)'?.*/\1/")
[ -z "$pkg" ] && { echo "RESULT $d cannot-parse-readme"; exit 1; }
git -C /repo worktree add -q --detach "$wt" HEAD || exit 1
trap 'git -C /repo worktree remove --force "$wt" 2>/dev/null' EXIT
demo=$(ls "$d"/demo_test.go "$d"/demo_test.go.txt 2>/dev/null | head -1)
cp "$demo" "$wt/$pkg/zz_seeded_demo_test.go"
cd "$wt"
go test -vet=off -count=1 -run "$run" "$pkg/" > /tmp/vm.out.$$ 2>&1; base=$?
git apply "$d/patch.diff" 2>/tmp/vm.err.$$ || git apply -3 "$d/patch.diff" 2>>/tmp/vm.err.$$ || { echo "RESULT $d patch-does-not-apply $(head -2 /tmp/vm.err.$$)"; exit 1; }
go build ./... > /tmp/vm.out.$$ 2>&1 || { echo "RESULT $d does-not-build"; exit 1; }
go test -vet=off -count=1 -run "$run" "$pkg/" > /tmp/vm.out.$$ 2>&1; mut=$?
rm -f "$wt/$pkg/zz_seeded_demo_test.go"
suite=ok
go test -vet=off -count=1 $(go list ./... | grep -v pkg/replication) > /tmp/vm.suite.$$ 2>&1 || suite=FAIL
go test -vet=off -count=1 -skip TestReplicaErrorRecovery ./pkg/replication/ >> /tmp/vm.suite.$$ 2>&1 || suite=FAIL
[ $suite = FAIL ] && grep -E '^(FAIL|---)' /tmp/vm.suite.$$ | head -5
verdict=REJECT
[ $base -eq 0 ] && [ $mut -ne 0 ] && [ $suite = ok ] && verdict=CONFIRMED
echo "RESULT $d $verdict demo_without_patch=$base demo_with_patch=$mut suite=$suite pkg=$pkg run=$run"
rm -f /tmp/vm.out.$$ /tmp/vm.err.$$ /tmp/vm.suite.$$
