#!/bin/bash
# matrix.sh [mutant ids...]: runs every seeded mutant against the quick check of its property (and the
# related checks listed below), records CAUGHT/MISSED in seeded/RESULTS.txt and in each meta.json.
cd "$(dirname "$0")/.."
declare -A EXTRA=( [C01A]="C09" [C01B]="C05" [C02A]="C03" [C02B]="C09 C01" [C03A]="C02" [C04B]="C01" [C05A]="C18" [C05B]="C11" [C06A]="C08" [C08A]="C06" [C11A]="C05" [C12B]="C01" [C16B]="" [C18B]="C05" [C13A]="C14" [C03C]="C01" [C03D]="C02 C01" [C04C]="C05" [C04D]="C17" [C13C]="C14" [C13D]="" [C17C]="C19" [C17D]="C19" [C19D]="C17" [C01D]="C02" [C08C]="C10" [C02F]="C10 C08" [C05E]="C19" [C06F]="C01" [C11E]="C05" [C12E]="C01" [C12F]="C01" [C01E]="C09" [C03E]="C04" [C03F]="C04" [C04E]="C01" [C04F]="C01" [C13F]="C14" [C17E]="C19" [C19F]="C17" [C14A]="C13" [C05G]="C11" [C05H]="C19" [C06G]="C01 C08" [C13H]="C14 C08" [C14G]="C15" [C03G]="C01" )
ids=${@:-$(ls seeded | grep -v RESULTS)}
for id in $ids; do
  d=seeded/$id; [ -f $d/patch.diff ] || continue
  prop=$(python3 -c "import json;print(json.load(open('$d/meta.json'))['property'])")
  key=${id:0:4}
  checks="$prop ${EXTRA[$key]:-}"
  out=$(tools/mutcheck.sh $d/patch.diff $checks 2>&1)
  echo "== $id ($(date +%H:%M))"; echo "$out"
  python3 - "$d/meta.json" "$out" <<'PY'
import json,sys,re
p,out=sys.argv[1],sys.argv[2]
m=json.load(open(p))
caught=re.findall(r'^CAUGHT (C\d+) .*?(map\[[^\]]*\])?$',out,re.M)
missed=re.findall(r'^MISSED (C\d+)',out,re.M)
m['caught_by']=[c for c,_ in caught]
m['missed_by']=missed
m['classes']={c:cl for c,cl in caught}
if 'cannot apply' in out: m['note']='patch no longer applies to the current tree'
json.dump(m,open(p,'w'),indent=1)
PY
done 2>&1 | tee -a seeded/RESULTS.txt
